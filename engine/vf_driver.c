/* vf_driver.c -- shared native driver: runs one harness entry on concrete input vectors and prints an event log.
 * Linked (a) with the g++ build of the real wrapper TU + vf_native.cpp and (b) with the gcc build of the generated C.
 *   prog list
 *   prog replay <entry> v0 v1 v2 ...          one vector; exit 0, log on stdout
 *   prog random <entry> <seed> <count> <lo> <hi>   count vectors, each in a forked child
 * Event log lines:  A <0|1> <msg>   R <msg>   X assume   L <msg>   T <msg>   E exhausted   D done  S <signal> */
#include <stdio.h>
#include <stdlib.h>
#include <string.h>
#include <unistd.h>
#include <signal.h>
#include <sys/wait.h>
typedef void (*entry_fn)(void);
entry_fn vfd_lookup(const char *name);
void vfd_list(void);
static long long *g_vals; static int g_nvals, g_pos; static int g_random; static unsigned long long g_rng; static long long g_lo, g_hi;
static int g_exhausted;
static unsigned long long rng_next(void) { g_rng ^= g_rng << 13; g_rng ^= g_rng >> 7; g_rng ^= g_rng << 17; return g_rng; }
static int g_mutate;
long long vfd_next_value(void) {
  if (g_mutate) {   /* witness-seeded vectors: the solver's witness inputs, each perturbed with probability 1/4 by a small delta */
    long long v;
    if (g_pos < g_nvals) v = g_vals[g_pos]; else { unsigned long long span = (unsigned long long)(g_hi - g_lo + 1); v = g_lo + (long long)(rng_next() % span); }
    g_pos++;
    if (g_mutate > 1 && (rng_next() & 3) == 0) { static const int d[4] = {-2, -1, 1, 2}; v += d[rng_next() & 3]; }
    return v;
  }
  if (g_random) { unsigned long long span = (unsigned long long)(g_hi - g_lo + 1); return g_lo + (long long)(rng_next() % span); }
  if (g_pos < g_nvals) return g_vals[g_pos++];
  g_exhausted = 1; return 0;
}
void vfd_event(int kind, const char *msg, int val) {
  if (kind == 'A') printf("A %d %s\n", val, msg); else printf("%c %s\n", kind, msg);
}
void vfd_stop(int kind, const char *msg) { printf("%c %s\n", kind, msg); fflush(stdout); _exit(0); }
static void on_signal(int sig) { char b[32]; int n = snprintf(b, sizeof b, "S %d\n", sig); fflush(stdout); if (write(1, b, n)) {} _exit(0); }
static void run_one(entry_fn f) {
  signal(SIGFPE, on_signal); signal(SIGSEGV, on_signal); signal(SIGABRT, on_signal); signal(SIGBUS, on_signal); signal(SIGILL, on_signal);
  f();
  if (g_exhausted) printf("E exhausted\n");
  printf("D done\n"); fflush(stdout);
}
int main(int argc, char **argv) {
  setvbuf(stdout, 0, _IOFBF, 1 << 16);
  if (argc < 2 || !strcmp(argv[1], "list")) { vfd_list(); return 0; }
  if (argc < 3) return 2;
  entry_fn f = vfd_lookup(argv[2]);
  if (!f) { fprintf(stderr, "no such entry %s\n", argv[2]); return 2; }
  if (!strcmp(argv[1], "replay")) {
    g_nvals = argc - 3; g_vals = calloc(g_nvals + 1, sizeof *g_vals);
    for (int i = 0; i < g_nvals; i++) g_vals[i] = strtoll(argv[3 + i], 0, 10);
    run_one(f); return 0;
  }
  if (!strcmp(argv[1], "mutate") && argc >= 7) {   /* mutate <entry> <seed> <count> <lo> <hi> v0 v1 ... */
    unsigned long long seed = strtoull(argv[3], 0, 10); int count = atoi(argv[4]); g_lo = atoll(argv[5]); g_hi = atoll(argv[6]);
    g_nvals = argc - 7; g_vals = calloc(g_nvals + 1, sizeof *g_vals);
    for (int i = 0; i < g_nvals; i++) g_vals[i] = strtoll(argv[7 + i], 0, 10);
    for (int i = 0; i < count; i++) {
      printf("V %d\n", i); fflush(stdout);
      pid_t p = fork();
      if (p == 0) { g_mutate = i == 0 ? 1 : 2; g_rng = (seed + 0x9E3779B97F4A7C15ULL) * (unsigned long long)(i + 1) | 1ULL; rng_next(); rng_next(); run_one(f); _exit(0); }
      int st; waitpid(p, &st, 0);
      if (WIFSIGNALED(st)) printf("S %d\n", WTERMSIG(st));
    }
    return 0;
  }
  if (!strcmp(argv[1], "random") && argc >= 7) {
    unsigned long long seed = strtoull(argv[3], 0, 10); int count = atoi(argv[4]); g_lo = atoll(argv[5]); g_hi = atoll(argv[6]);
    g_random = 1;
    for (int i = 0; i < count; i++) {
      printf("V %d\n", i); fflush(stdout);
      pid_t p = fork();
      if (p == 0) { g_rng = (seed + 0x9E3779B97F4A7C15ULL) * (unsigned long long)(i + 1) | 1ULL; rng_next(); rng_next(); run_one(f); _exit(0); }
      int st; waitpid(p, &st, 0);
      if (WIFSIGNALED(st)) printf("S %d\n", WTERMSIG(st));
    }
    return 0;
  }
  return 2;
}
