#!/usr/bin/env python3
"""5-second self-test of the translator on a frozen mini IR file (no network, nothing fetched)"""
import os, subprocess, sys, tempfile
E = os.path.dirname(os.path.abspath(__file__))
with tempfile.TemporaryDirectory() as d:
    c = os.path.join(d, 'mini.c')
    subprocess.check_call([sys.executable, os.path.join(E, 'll2c.py'), os.path.join(E, 'selftest_mini.ll'), '-o', c])
    r = subprocess.run(['cbmc', c, '-I' + E, '--function', 'main_vfh_mini', '--unwind', '7', '--unwinding-assertions', '--signed-overflow-check', '-DLL2C_W=32'], stdout=subprocess.PIPE, stderr=subprocess.PIPE)
    out = r.stdout.decode()
    ok = 'VF sum is right: SUCCESS' in out and 'REACH mini: FAILURE' in out
    print('selftest', 'ok' if ok else 'FAILED'); 
    if not ok: print(out[-2000:]); sys.exit(1)
