#!/usr/bin/env python3
"""seedtest.py <seed-dir> <name> <check-id>[,<check-id>...] [--only REGEX]
Confirm a seeded breaking change and run the registered checks against it.
 1. in the scratch worktree /tmp/seedchk (own build dir): apply patch, rebuild the repository's test-suite, all 78 must pass;
    the demonstration must fail with the patch and pass without it.
 2. apply the patch to /repo, run ./check <id> --no-evidence for each listed property, undo the patch (git checkout -- .).
 3. store patch.diff, demo.cpp, meta.json under /verif/seeded/<name>/."""
import json, os, shutil, subprocess, sys, time
def sh(cmd, cwd=None, timeout=7200):
    p = subprocess.run(cmd, shell=True, cwd=cwd, stdout=subprocess.PIPE, stderr=subprocess.STDOUT, timeout=timeout)
    return p.returncode, p.stdout.decode('utf-8', 'replace')
src, name, checks = sys.argv[1], sys.argv[2], sys.argv[3].split(',')
only = sys.argv[5] if len(sys.argv) > 5 and sys.argv[4] == '--only' else None
env = 'OMPI_ALLOW_RUN_AS_ROOT=1 OMPI_ALLOW_RUN_AS_ROOT_CONFIRM=1 '
W = os.environ.get('SEED_WT') or '/tmp/seedchk'; inplace = bool(os.environ.get('SEED_WT')); out = '/verif/seeded/' + name; os.makedirs(out, exist_ok=True)
patch = os.path.join(src, 'patch.diff')
meta = json.load(open(os.path.join(src, 'meta.json'))) if os.path.exists(os.path.join(src, 'meta.json')) else {}
res = dict(property=meta.get('property'), what=meta.get('what'), needs=meta.get('needs'), author_ran=meta.get('ran'))
# SEED_WT=<worktree>: the author's own worktree of /repo's HEAD with the change already applied (and possibly built) is re-used for
# the confirmation so that the suite is not rebuilt twice: its diff must equal patch.diff, the un-patched demo run uses /repo/include
if inplace:
    rc, o = sh('git diff > /tmp/seed_wt.diff; git apply -R --check %s && test "$(git rev-parse HEAD)" = "$(git -C /repo rev-parse HEAD)" && git -C /repo diff --quiet' % patch, cwd=W)
    if rc != 0: print('SEED_WT: worktree does not hold exactly the patch on /repo HEAD', o); sys.exit(2)
else:
    sh('git checkout -q -- . && git checkout -q --detach $(git -C /repo rev-parse HEAD)', cwd=W)
# demo without the patch
CXX = os.environ.get('SEED_DEMO_CXX', 'g++'); LIBS = os.environ.get('SEED_DEMO_LIBS', ''); RUN = os.environ.get('SEED_DEMO_RUN', '')
DEMO_BIN = '/tmp/seedchk_demo_' + name
demo_cmd = env + '%s -std=c++17 -I%s/include %s/demo.cpp -o %s %s && %s %s' % (CXX, W, src, DEMO_BIN, LIBS, RUN, DEMO_BIN)
rc0, o0 = sh(demo_cmd.replace('-I%s/include' % W, '-I/repo/include') if inplace else demo_cmd, cwd=W)
if not inplace:
    rc, o = sh('git apply %s' % patch, cwd=W)
    if rc != 0: print('patch does not apply', o); sys.exit(2)
rc1, o1 = sh(demo_cmd, cwd=W)
rcb, ob = sh('(test -f _build/build.ninja || cmake -G Ninja -S . -B _build -DCMAKE_BUILD_TYPE=RelWithDebInfo -DCMAKE_CXX_FLAGS=-Wno-error >/dev/null) && cmake --build _build -j%s' % os.environ.get('SEED_JOBS', '16'), cwd=W)
rct, ot = sh(env + 'ctest --test-dir _build -j8 --timeout 600', cwd=W)
passed = [l for l in ot.split('\n') if 'tests passed' in l]
if not inplace: sh('git checkout -q -- .', cwd=W)
res['demo_cmd'] = demo_cmd
res['confirmed'] = dict(demo_without_patch_exit=rc0, demo_with_patch_exit=rc1, build_exit=rcb, ctest=passed[0].strip() if passed else ot[-300:])
ok = rc0 == 0 and rc1 != 0 and rcb == 0 and passed and passed[0].startswith('100%')
print('confirmed' if ok else 'NOT CONFIRMED', res['confirmed'])
# run the checks against the patched tree: /repo itself (apply, check, git checkout -- .), or - with SEED_SCRATCH=1, used while a long
# run is reading /repo - a scratch worktree of /repo's HEAD that the runner is pointed at through VERIF_REPO
res['checks'] = {}
scratch = os.environ.get('SEED_SCRATCH') == '1'
target = ('/tmp/seedrepo_' + name) if scratch else '/repo'
if scratch:
    sh('git -C /repo worktree remove --force %s; git -C /repo worktree prune; git -C /repo worktree add --detach %s HEAD -q' % (target, target))
rc, o = sh('git -C %s apply %s' % (target, patch))
if rc != 0: print('patch does not apply to', target, o); sys.exit(2)
res['checked_against'] = 'scratch worktree of /repo HEAD with the patch applied (VERIF_REPO)' if scratch else '/repo working tree with the patch applied, restored afterwards'
try:
    for c in checks:
        t0 = time.time()
        rc, o = sh('%s./check %s --no-evidence %s' % (('VERIF_REPO=%s ' % target) if scratch else '', c, ("--only '%s'" % only) if only else ''), cwd='/verif')
        viol = [l for l in o.split('\n') if l.startswith('VIOLATION')]
        res['checks'][c] = dict(exit=rc, violations=len(viol), first=viol[0][:400] if viol else None, seconds=round(time.time() - t0), tail=o.strip().split('\n')[-1][:300])
        print(c, 'exit', rc, len(viol), 'violations', viol[0][:300] if viol else o.strip().split('\n')[-1][:300])
finally:
    if scratch: sh('git -C /repo worktree remove --force %s; git -C /repo worktree prune' % target)
    else: sh('git -C /repo checkout -- .')
res['detected_by'] = [c for c, v in res['checks'].items() if v['exit'] == 1 and v['violations'] > 0]
shutil.copy(patch, out); shutil.copy(os.path.join(src, 'demo.cpp'), out)
json.dump(res, open(os.path.join(out, 'meta.json'), 'w'), indent=1)
print('detected by', res['detected_by'])
