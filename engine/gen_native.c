/* gen_native.c -- entry lookup for the native build of the generated C (translator validation) */
#include <stdio.h>
#include <string.h>
struct ll2c_entry { const char *name; void (*fn)(void); };
extern struct ll2c_entry ll2c_entries[];
typedef void (*entry_fn)(void);
entry_fn vfd_lookup(const char *name) { for (int i = 0; ll2c_entries[i].name; i++) if (!strcmp(ll2c_entries[i].name, name)) return ll2c_entries[i].fn; return 0; }
void vfd_list(void) { for (int i = 0; ll2c_entries[i].name; i++) printf("%s\n", ll2c_entries[i].name); }
