#!/usr/bin/env python3
"""run.py -- decide one property of /verif/properties.jsonl on /repo's current working tree.

pipeline per unit (a wrapper TU + a set of -D defines):
  clang++-14 -O1 -S -emit-llvm  ->  ll2c.py  ->  cbmc (one query per entry function, all properties)  ->  verdicts
  g++ build of the same TU (the real code)  +  gcc build of the generated C   ->  translator validation on PRNG vectors
  every solver counterexample (violations AND the expected reachability witnesses) is replayed on the g++ build.
exit 0: every obligation proved inside the stated bounds, every witness reachable and confirmed natively
exit 1: VIOLATION property=<id> replay=<path>     (a counterexample that reproduces on the real build)
exit 2: INCONCLUSIVE / BROKEN (timeout, bound too small, encoding mismatch) -- never reported as success
"""
import argparse, concurrent.futures as cf, hashlib, json, os, re, shutil, subprocess, sys, tempfile, threading, time

VERIF = os.path.dirname(os.path.dirname(os.path.abspath(__file__)))
REPO = os.environ.get('VERIF_REPO', '/repo')
ENG = os.path.join(VERIF, 'engine')
HAR = os.path.join(VERIF, 'harness')
sys.path.insert(0, HAR)

CLANG_FLAGS = ['-std=c++17', '-O1', '-fno-vectorize', '-fno-slp-vectorize', '-fno-unroll-loops', '-mllvm', '-simplifycfg-sink-common=false',
               '-Wno-everything', '-I' + os.path.join(REPO, 'include'), '-I' + ENG, '-I' + HAR]


class Unit:
    """one wrapper TU + defines -> one generated C file; `entries` = harness functions (VF_HARNESS names) to decide"""
    def __init__(s, prop, tu, name=None, defines=None, entries=None, narrow=32, unwind=6, unwindset=None, objbits=None, timeout=600,
                 tier='quick', exceptions=False, stubs=(), heap=512, slots=1, backend='cadical', cflags=(), rnd=(-3, 9), nvec=300,
                 kf=None, per_entry=None, skip_entries=(), native_libs=(), wide_also=False, no_overflow_check=False, mustfire=False, mm=24, fs=None, inline=100000, reject=()):
        s.prop = prop; s.tu = tu; s.defines = dict(defines or {}); s.entries = entries; s.narrow = narrow; s.unwind = unwind
        s.unwindset = dict(unwindset or {}); s.objbits = objbits; s.timeout = timeout; s.tier = tier; s.exceptions = exceptions
        s.stubs = list(stubs); s.heap = heap; s.slots = slots; s.backend = backend; s.cflags = list(cflags); s.rnd = rnd; s.nvec = nvec
        s.kf = dict(kf or {})            # entry name -> known-finding id (the entry is the finding's twin: expected to fail there)
        s.per_entry = dict(per_entry or {})  # entry -> dict(unwind=..., timeout=..., unwindset=..., objbits=...)
        s.skip_entries = set(skip_entries); s.native_libs = list(native_libs); s.no_overflow_check = no_overflow_check; s.mustfire = mustfire; s.mm = mm; s.fs = fs; s.inline = inline
        s.reject = [re.compile(x) for x in reject]   # library assertion sites whose firing is a documented REJECTION of the input (allowed outcome), not a violation
        s.name = name or (os.path.splitext(tu)[0] + ''.join('_%s%s' % (k, v) for k, v in sorted(s.defines.items())))
        s.name = re.sub(r'[^A-Za-z0-9_]', '_', s.name)


def sh(cmd, timeout=None, cwd=None, env=None):
    t0 = time.time()
    p = subprocess.Popen(cmd, stdout=subprocess.PIPE, stderr=subprocess.PIPE, cwd=cwd, env=env, start_new_session=True)
    try:
        out, err = p.communicate(timeout=timeout)
        return p.returncode, out.decode('utf-8', 'replace'), err.decode('utf-8', 'replace'), time.time() - t0
    except subprocess.TimeoutExpired:
        try: os.killpg(p.pid, 9)     # the whole group: /usr/bin/time AND the solver it started
        except ProcessLookupError: pass
        try: p.communicate(timeout=10)
        except Exception: pass
        return -9, '', 'TIMEOUT', time.time() - t0


class Ctx:
    def __init__(s, prop, tier, wd, jobs, seed):
        s.prop = prop; s.tier = tier; s.wd = wd; s.seed = seed
        s.jobs = jobs; s.free = jobs; s.cv = threading.Condition()
        s.lock = threading.Lock(); s.log = []
    def acquire(s, k):   # k worker slots, atomically (memory-heavy queries take several)
        k = min(k, s.jobs)
        with s.cv:
            while s.free < k: s.cv.wait()
            s.free -= k
        return k
    def release(s, k):
        with s.cv:
            s.free += k; s.cv.notify_all()
    def say(s, msg):
        with s.lock:
            print(msg, flush=True)


def defs(u, extra=()):
    return ['-D%s=%s' % (k, v) for k, v in sorted(u.defines.items())] + list(extra)


def build_ir(ctx, u):
    """clang -> .ll -> .c ; returns dict"""
    tu = os.path.join(HAR, u.tu)
    ll = os.path.join(ctx.wd, u.name + '.ll'); c = os.path.join(ctx.wd, u.name + '.c'); meta = os.path.join(ctx.wd, u.name + '.meta.json')
    flags = CLANG_FLAGS + ['-mllvm', '-inline-threshold=%d' % u.inline] + defs(u) + u.cflags
    rc, out, err, t = sh(['clang++-14'] + flags + ['-Rpass=inline', '-S', '-emit-llvm', tu, '-o', ll])
    if rc != 0: return dict(ok=False, stage='clang', err=err[-4000:])
    inlined = sorted(set(re.findall(r"remark: '([^']+)' inlined into", err)))
    rc, out, err2, t2 = sh(['clang++-14'] + flags + ['-MM', tu])
    hdrs = sorted(set(h for h in re.split(r'[\s\\]+', out) if h.startswith(REPO + '/include')))
    cmd = ['python3', os.path.join(ENG, 'll2c.py'), ll, '-o', c, '--meta', meta]
    for r in u.stubs: cmd += ['--stub-fn', r]
    rc, out, err, t3 = sh(cmd)
    if rc != 0: return dict(ok=False, stage='ll2c', err=err[-4000:])
    return dict(ok=True, ll=ll, c=c, meta=json.load(open(meta)), headers=hdrs, inlined=inlined, t=t + t3, stubbed=[l for l in err.split('\n') if l.startswith('ll2c: stubbed')])


def build_native(ctx, u, sanitize=False):
    """g++ build of the real wrapper TU and gcc build of the generated C (both linked with the shared driver)"""
    tu = os.path.join(HAR, u.tu)
    real = os.path.join(ctx.wd, u.name + ('.real_san' if sanitize else '.real'))
    flags = ['-std=c++17', '-O1', '-g0', '-w', '-DVF_NATIVE', '-I' + os.path.join(REPO, 'include'), '-I' + ENG, '-I' + HAR] + defs(u) + [f for f in u.cflags if f.startswith('-I') or f.startswith('-D')]
    if sanitize: flags += ['-g', '-fsanitize=address,undefined', '-fno-sanitize-recover=all', '-fno-omit-frame-pointer']
    rc, out, err, t = sh(['g++'] + flags + [tu, os.path.join(ENG, 'vf_native.cpp'), '-x', 'c', os.path.join(ENG, 'vf_driver.c'), '-o', real] + u.native_libs)
    if rc != 0: return dict(ok=False, stage='g++', err=err[-4000:])
    res = dict(ok=True, real=real, t=t)
    if not sanitize:
        gen = os.path.join(ctx.wd, u.name + '.gen')
        rc, out, err, t2 = sh(['gcc', '-O1', '-w', '-fwrapv', '-fno-strict-aliasing', '-I' + ENG, '-DLL2C_HEAP_BYTES=%d' % u.heap, os.path.join(ctx.wd, u.name + '.c'),
                               os.path.join(ENG, 'gen_native.c'), os.path.join(ENG, 'vf_driver.c'), '-o', gen] + u.native_libs)
        if rc != 0: return dict(ok=False, stage='gcc-generated-C', err=err[-4000:])
        res['gen'] = gen; res['t'] += t2
    return res


def events(exe, mode, entry, args, timeout=60):
    rc, out, err, t = sh([exe, mode, entry] + [str(a) for a in args], timeout=timeout,
                         env=dict(os.environ, ASAN_OPTIONS='detect_leaks=0:abort_on_error=1', UBSAN_OPTIONS='print_stacktrace=0'))
    ev = [l for l in out.split('\n') if l]
    if rc not in (0,): ev.append('S rc=%d' % rc)
    return ev, err


def differential(ctx, u, nat, entries, seeds=None):
    """translator validation: the same input vectors through the g++ build of the real TU and the gcc build of the generated C.
    Vectors are PRNG streams and, where the solver produced a witness for the entry, perturbations of that witness (so that most
    vectors pass the harness assumptions and run to the end)."""
    total = 0; completed = 0; diffs = []
    for e in entries:
        base = (seeds or {}).get(e)
        if base: args = ['mutate', e, [ctx.seed, u.nvec, u.rnd[0], u.rnd[1]] + list(base)]
        else: args = ['random', e, [ctx.seed, u.nvec, u.rnd[0], u.rnd[1]]]
        a, _ = events(nat['real'], args[0], args[1], args[2], timeout=120)
        b, _ = events(nat['gen'], args[0], args[1], args[2], timeout=120)
        total += u.nvec; completed += sum(1 for l in a if l.startswith('D '))
        if a != b:
            # first differing vector
            k = next((i for i in range(min(len(a), len(b))) if a[i] != b[i]), min(len(a), len(b)))
            diffs.append(dict(entry=e, at=k, real=a[max(0, k - 3):k + 3], gen=b[max(0, k - 3):k + 3]))
    return dict(vectors=total, completed=completed, diffs=diffs)


CBMC_BACKENDS = {'cadical': ['--sat-solver', 'cadical'], 'minisat': [], 'kissat': ['--external-sat-solver', 'kissat'], 'z3': ['--z3'], 'cvc5': ['--cvc5']}


def run_cbmc(ctx, u, ir, entry):
    pe = u.per_entry.get(entry, {})
    unwind = pe.get('unwind', u.unwind); timeout = pe.get('timeout', u.timeout); objbits = pe.get('objbits', u.objbits)
    uws = {'rt_memmove_v.%d' % i: u.mm for i in range(4)}   # variable-length memmove model (ll2c_rt.h): own bound, checked by unwinding assertions
    uws.update(u.unwindset); uws.update(pe.get('unwindset', {}))
    narrow = pe.get('narrow', u.narrow)
    cmd = ['cbmc', ir['c'], '-I' + ENG, '--function', 'main_vfh_' + entry, '--unwind', str(unwind), '--unwinding-assertions',
           '--drop-unused-functions', '--json-ui', '--trace', '-DLL2C_HEAP_BYTES=%d' % u.heap]
    if not u.no_overflow_check: cmd += ['--signed-overflow-check']
    if narrow: cmd += ['-DLL2C_W=%d' % narrow]
    if u.mustfire: cmd += ['-DLL2C_MUSTFIRE']
    if objbits: cmd += ['--object-bits', str(objbits)]
    if u.fs: cmd += ['--max-field-sensitivity-array-size', str(u.fs)]
    if uws: cmd += ['--unwindset', ','.join('%s:%d' % kv for kv in uws.items())]
    cmd += CBMC_BACKENDS[pe.get('backend', u.backend)]
    got = ctx.acquire(pe.get('slots', u.slots))
    try:
        t0 = time.time()
        rc, out, err, t = sh(['/usr/bin/time', '-f', 'RSSKB %M'] + cmd, timeout=timeout)
    finally:
        ctx.release(got)
    rss = 0
    m = re.search(r'RSSKB (\d+)', err or '')
    if m: rss = int(m.group(1))
    res = dict(unit=u.name, entry=entry, solver_s=round(t, 2), rss_kb=rss, cmd=' '.join(cmd[1:]).replace(ctx.wd + '/', ''), props=[], status='ok',
               bounds=dict(unwind=unwind, unwindset=uws, width=narrow or 64, defines=u.defines))
    if rc == -9:
        res['status'] = 'timeout'; return res
    try:
        data = json.loads(out)
    except Exception:
        res['status'] = 'cbmc-error'; res['err'] = (out[-1500:] + err[-1500:]); return res
    result = None
    for x in data:
        if isinstance(x, dict) and 'result' in x: result = x['result']
        if isinstance(x, dict) and x.get('messageType') == 'ERROR': res.setdefault('errors', []).append(x.get('messageText'))
    if result is None:
        res['status'] = 'cbmc-error'; res['err'] = json.dumps(res.get('errors', []))[:3000] + err[-500:]; return res
    for r in result:
        p = dict(name=r.get('property'), desc=r.get('description', ''), status=r.get('status'))
        if r.get('status') == 'FAILURE' and 'trace' in r:
            p['inputs'] = [int(re.sub(r'[a-zA-Z]+$', '', st['value']['data'])) for st in r['trace']
                           if st.get('stepType') == 'assignment' and st.get('lhs') == 'vf_in' and not st.get('hidden') and 'data' in st.get('value', {})]
        res['props'].append(p)
    return res


def classify(desc):
    if desc.startswith('REACH '): return 'reach'
    if desc.startswith('MUSTFIRE '): return 'mustfire'
    if desc.startswith('VF '): return 'vf'
    if desc.startswith('LIBASSERT ') or desc.startswith('ASSERT '): return 'libassert'
    if desc.startswith('NARROW ') or desc.startswith('RT ') or desc.startswith('VF MODEL '): return 'encoding'   # 'VF MODEL ...': the code left the harness's model of an external library (inconclusive, never a violation)
    if 'unwinding assertion' in desc: return 'unwind'
    if desc.startswith('std::terminate'): return 'terminate'
    return 'safety'   # cbmc's own checks: pointer dereference, bounds, overflow, division by zero


def main():
    ap = argparse.ArgumentParser()
    ap.add_argument('prop'); ap.add_argument('--tier', default=os.environ.get('VERIF_TIER', 'quick'), choices=['quick', 'thorough'])
    ap.add_argument('--only', default=None, help='regex on unit:entry'); ap.add_argument('--jobs', type=int, default=int(os.environ.get('VERIF_JOBS', '16')))
    ap.add_argument('--keep', action='store_true'); ap.add_argument('--no-evidence', action='store_true')
    ap.add_argument('--replay', default=None, help='replay a stored counterexample file')
    a = ap.parse_args()
    seed = int(os.environ.get('VERIF_SEED', '1'))
    import registry
    t_start = time.time()
    wd = tempfile.mkdtemp(prefix='vf_%s_' % a.prop)
    ctx = Ctx(a.prop, a.tier, wd, a.jobs, seed)
    try:
        if a.replay: rc = do_replay(ctx, registry, a.replay)
        else: rc = do_check(ctx, registry, a)
    finally:
        if not a.keep: shutil.rmtree(wd, ignore_errors=True)
        else: print('kept', wd)
    sys.exit(rc)


def do_replay(ctx, registry, path):
    r = json.load(open(path))
    u = next(x for x in registry.UNITS if x.name == r['unit'])
    nat = build_native(ctx, u, sanitize=True)
    if not nat['ok']: print('BROKEN: native build failed:', nat['err']); return 2
    ev, err = events(nat['real'], 'replay', r['entry'], r['inputs'])
    print('\n'.join(ev)); print(err[-3000:])
    bad = [e for e in ev if e.startswith('A 0') or e[0] in 'LST']
    if bad: print('VIOLATION property=%s replay=%s' % (r['property'], path)); return 1
    print('not reproduced'); return 0


def do_check(ctx, registry, a):
    prop = a.prop; tier = a.tier
    kfile = os.path.join(VERIF, 'known_findings.json')
    known = json.load(open(kfile)) if os.path.exists(kfile) else {'findings': []}
    known_ids = {f['id']: f for f in known.get('findings', []) if f.get('status') == 'known' and f.get('property') == prop}
    units = [u for u in registry.UNITS if u.prop == prop and (u.tier == 'quick' or tier == 'thorough')]
    if not units: print('no units registered for', prop); return 2
    t_start = time.time()
    outdir = os.path.join(VERIF, 'out', 'replay'); os.makedirs(outdir, exist_ok=True)
    results = []; builds = {}; natives = {}; diffres = {}; problems = []; violations = []; known_hits = []; kf_seen = {}; inconclusive = []
    pool = cf.ThreadPoolExecutor(max_workers=max(ctx.jobs * 2, 8))

    # stage 1: IR + C for every unit
    futs = {pool.submit(build_ir, ctx, u): u for u in units}
    for f in cf.as_completed(futs):
        u = futs[f]; builds[u.name] = f.result()
        if not builds[u.name]['ok']:
            problems.append('BROKEN unit=%s stage=%s: %s' % (u.name, builds[u.name]['stage'], builds[u.name]['err'][-1500:]))
    if problems:
        for p in problems: print(p)
        # a TU that no longer compiles/translates against the current tree is a finding of its own kind for C11 (handled there); otherwise broken
        write_evidence(ctx, a, units, builds, results, diffres, violations, known_hits, inconclusive + problems, t_start, 0)
        return 2
    # stage 2: cbmc queries and native builds, concurrently
    jobs = []
    for u in units:
        ents = u.entries or sorted(builds[u.name]['meta']['entries'].keys())
        ents = [e for e in ents if e not in u.skip_entries]
        if a.only: ents = [e for e in ents if re.search(a.only, u.name + ':' + e)]
        u._ents = ents
        for e in ents: jobs.append((u, e))
    nat_f = {pool.submit(build_native, ctx, u): u for u in units if u._ents}
    cb_f = {pool.submit(run_cbmc, ctx, u, builds[u.name], e): (u, e) for (u, e) in jobs}
    for f in cf.as_completed(nat_f):
        u = nat_f[f]; natives[u.name] = f.result()
        if not natives[u.name]['ok']: problems.append('BROKEN unit=%s stage=%s: %s' % (u.name, natives[u.name]['stage'], natives[u.name]['err'][-1500:]))
    if problems:
        for p in problems: print(p)
        for f in cb_f: f.cancel()
        write_evidence(ctx, a, units, builds, results, diffres, violations, known_hits, problems, t_start, 0)
        return 2
    umap0 = {u.name: u for u in units}
    for f in cf.as_completed(cb_f):
        r = f.result(); results.append(r)
        np_ = len(r['props']); nf = sum(1 for p in r['props'] if p['status'] == 'FAILURE' and classify(p['desc']) not in ('reach', 'mustfire') and not (classify(p['desc']) == 'libassert' and any(x.search(p['desc']) for x in umap0[r['unit']].reject)))
        ctx.say('  %-28s %-22s %-8s %4d props %3d failed  %6.1fs %5d MB' % (r['unit'], r['entry'], r['status'], np_, nf, r['solver_s'], r['rss_kb'] // 1024))
    # translator validation, seeded by the solver's witnesses
    wseeds = {}
    for r in results:
        for p in r['props']:
            if classify(p['desc']) == 'reach' and p['status'] == 'FAILURE' and p.get('inputs'): wseeds.setdefault(r['unit'], {}).setdefault(r['entry'], p['inputs'])
    dfut = {pool.submit(differential, ctx, u, natives[u.name], u._ents, wseeds.get(u.name)): u for u in units if u._ents}
    for f in cf.as_completed(dfut):
        u = dfut[f]; diffres[u.name] = f.result()
        for d in diffres[u.name]['diffs']:
            problems.append('BROKEN translator-validation unit=%s entry=%s: generated C and real build disagree at event %d: real=%s gen=%s' % (u.name, d['entry'], d['at'], d['real'], d['gen']))

    # stage 3: interpret
    validated = 0; san_builds = {}
    umap = {u.name: u for u in units}
    for r in sorted(results, key=lambda r: (r['unit'], r['entry'])):
        u = umap[r['unit']]; tag = '%s:%s' % (r['unit'], r['entry'])
        if r['status'] != 'ok':
            inconclusive.append('INCONCLUSIVE %s: %s %s' % (tag, r['status'], r.get('err', '')[:600])); continue
        kf_id = u.kf.get(r['entry'])
        reach = [p for p in r['props'] if classify(p['desc']) == 'reach']
        if not reach: problems.append('BROKEN %s: harness has no reachability witness' % tag)
        r['witness_ok'] = True
        for p in reach:
            if p['status'] != 'FAILURE':
                r['witness_ok'] = False
                if not kf_id: problems.append('BROKEN %s: witness "%s" is not reachable (vacuous harness)' % (tag, p['desc']))
                continue
            ev, _ = events(natives[u.name]['real'], 'replay', r['entry'], p.get('inputs', []))
            okw = ('R ' + p['desc']) in ev and not any(e.startswith('A 0') or (e[0] in ('STXE' if u.mustfire else 'LSTXE') and not (e[0] == 'L' and any(x.search(e[2:]) for x in u.reject))) for e in ev)
            if okw: validated += 1; r.setdefault('witness_inputs', p.get('inputs', []))
            elif not kf_id:
                problems.append('BROKEN %s: witness trace for "%s" does not replay on the real build: inputs=%s events=%s' % (tag, p['desc'], p.get('inputs'), ev[-6:]))
        if u.mustfire:
            # at least one library assertion must be shown to fire, and the firing must reproduce on the real build (an 'L' event)
            mf = [p for p in r['props'] if classify(p['desc']) == 'mustfire' and p['status'] == 'FAILURE']
            if not mf: problems.append('BROKEN %s: must-fire harness in which no library assertion can fire' % tag); r['witness_ok'] = False
            nrep = 0
            for p in mf:
                ev, _ = events(natives[u.name]['real'], 'replay', r['entry'], p.get('inputs', []))
                if ('L ' + p['desc'][len('MUSTFIRE '):]) in ev: nrep += 1; validated += 1
                else: problems.append('BROKEN %s: firing of "%s" does not replay natively: inputs=%s events=%s' % (tag, p['desc'], p.get('inputs'), ev[-4:]))
            r['mustfire_sites'] = [p['desc'] for p in mf]
        fails = [p for p in r['props'] if p['status'] == 'FAILURE' and classify(p['desc']) not in ('reach', 'mustfire')]
        rej = [p for p in fails if classify(p['desc']) == 'libassert' and any(x.search(p['desc']) for x in u.reject)]
        if rej:
            r['rejections'] = sorted(set(p['desc'] for p in rej)); fails = [p for p in fails if p not in rej]
        others = [p for p in r['props'] if p['status'] not in ('SUCCESS', 'FAILURE')]
        if others: inconclusive.append('INCONCLUSIVE %s: %d properties undecided (%s)' % (tag, len(others), others[0]['status']))
        if kf_id is not None and kf_id in known_ids:
            # twin of a listed known finding: failing here is expected; it is reported as KNOWN-FINDING only if it reproduces
            rep = None
            for p in fails:
                if classify(p['desc']) in ('encoding', 'unwind'): continue
                rp = replay_fail(ctx, u, r, p, natives, san_builds, outdir)
                if rp['reproduced']: rep = rp; break
            if rep: kf_seen.setdefault(kf_id, []).append('%s %s' % (r['entry'], rep['inputs']))
            r['known_finding'] = kf_id; r['known_reproduced'] = bool(rep)
            continue
        for p in fails:
            k = classify(p['desc'])
            rp = replay_fail(ctx, u, r, p, natives, san_builds, outdir)
            if rp['reproduced']:
                violations.append('VIOLATION property=%s replay=%s   # %s: %s ; native: %s' % (prop, rp['path'], tag, p['desc'], rp['why']))
            elif k in ('encoding', 'unwind'):
                inconclusive.append('INCONCLUSIVE %s: %s (inputs %s)' % (tag, p['desc'], p.get('inputs')))
            elif k == 'safety':
                # memory-safety / arithmetic UB reported by the solver that sanitizers do not observe: reported, flagged as solver-only
                violations.append('VIOLATION property=%s replay=%s   # %s: %s ; solver-only (undefined behaviour not observable natively)' % (prop, rp['path'], tag, p['desc']))
            else:
                problems.append('BROKEN %s: counterexample for "%s" does not reproduce on the real build (encoding or stub wrong): inputs=%s native=%s' % (tag, p['desc'], p.get('inputs'), rp['events'][-5:]))
    for kid, ws in kf_seen.items():   # one line per listed finding (with the twin entries whose counterexample reproduced on the real build)
        known_hits.append('KNOWN-FINDING: property=%s %s [%s; reproduced by %s]' % (prop, known_ids[kid]['what'], kid, '; '.join(ws)))
    for k in known_hits: print(k)
    seen = set()
    for v in violations:
        key = v.split('#')[1] if '#' in v else v
        if key in seen: continue
        seen.add(key); print(v)
    for x in inconclusive: print(x)
    for x in problems: print(x)
    rc = 1 if violations else (2 if (inconclusive or problems) else 0)
    write_evidence(ctx, a, units, builds, results, diffres, violations, known_hits, inconclusive + problems, t_start, validated)
    nq = sum(len(r['props']) for r in results)
    print('%s %s: %d units, %d harness entries, %d solver-decided properties, %d witnesses replayed natively, %d violations, %d known findings, %d inconclusive/broken, %.0fs'
          % (prop, tier, len(units), len(results), nq, validated, len(seen), len(known_hits), len(inconclusive) + len(problems), time.time() - t_start))
    return rc


def replay_fail(ctx, u, r, p, natives, san_builds, outdir):
    inputs = p.get('inputs', [])
    path = os.path.join(outdir, '%s-%s-%s-%s.json' % (u.prop, r['unit'], r['entry'], hashlib.sha1((p['desc'] + str(inputs)).encode()).hexdigest()[:8]))
    json.dump(dict(property=u.prop, unit=u.name, entry=r['entry'], cbmc_property=p['name'], description=p['desc'], inputs=inputs,
                   how='python3 engine/run.py %s --replay %s' % (u.prop, path)), open(path, 'w'), indent=1)
    k = classify(p['desc'])
    ev, err = events(natives[u.name]['real'], 'replay', r['entry'], inputs)
    why = None
    if k == 'vf':
        if ('A 0 ' + p['desc']) in ev: why = 'assertion "%s" false' % p['desc']
    elif k == 'libassert':
        if ('L ' + p['desc']) in ev: why = 'library assertion fired'
    elif k == 'terminate':
        if any(e.startswith('T ') for e in ev): why = 'std::terminate'
    if why is None:
        bad = [e for e in ev if e.startswith('A 0') or e[0] in 'LST']
        if bad: why = bad[0]
    if why is None and k == 'safety':
        if u.name not in san_builds: san_builds[u.name] = build_native(ctx, u, sanitize=True)
        sb = san_builds[u.name]
        if sb['ok']:
            ev2, err2 = events(sb['real'], 'replay', r['entry'], inputs)
            bad = [e for e in ev2 if e.startswith('A 0') or e[0] in 'LST']
            if bad: why = 'sanitizer build: ' + bad[0] + ' ' + ' '.join(l for l in err2.split('\n') if 'ERROR' in l or 'runtime error' in l)[:300]
    return dict(reproduced=why is not None, why=why, path=path, inputs=inputs, events=ev)


def write_evidence(ctx, a, units, builds, results, diffres, violations, known_hits, notes, t_start, validated):
    if a.no_evidence or a.only: return
    prop = a.prop
    nprops = sum(len(r['props']) for r in results)
    nproved = sum(1 for r in results for p in r['props'] if p['status'] == 'SUCCESS')
    reach_ok = [r for r in results if r.get('witness_ok') and r['status'] == 'ok']
    fns = set(); asserts = set(); hdr = {}
    for u in units:
        b = builds.get(u.name)
        if not b or not b.get('ok'): continue
        fns |= set(b.get('inlined', []))
        for e, m in b['meta']['entries'].items():
            if e in getattr(u, '_ents', []):
                fns |= set(m['functions']); asserts |= set(m['libassert_sites'])
        for h in b['headers']:
            if h not in hdr:
                try: hdr[h] = hashlib.sha256(open(h, 'rb').read()).hexdigest()[:16]
                except OSError: pass
    dem = []
    if fns:
        rc, out, err, t = sh(['c++filt'] + sorted(fns))
        dem = [l for l in out.split('\n') if l and 'boost::multi' in l]
    samples = []
    for r in sorted(results, key=lambda r: (r['unit'], r['entry']))[:40]:
        samples.append(dict(harness=r['unit'] + ':' + r['entry'], bounds=r['bounds'], cbmc_properties=len(r['props']),
                            proved=sum(1 for p in r['props'] if p['status'] == 'SUCCESS'), solver_s=r['solver_s'], rss_kb=r['rss_kb'],
                            witness_inputs=r.get('witness_inputs'), status=r['status'], known_finding=r.get('known_finding'), mustfire_sites=r.get('mustfire_sites'), accepted_rejections=r.get('rejections')))
    ev = dict(
        property_id=prop, tier=a.tier, seed=ctx.seed, level='model_checking',
        coverage=dict(
            evaluations=max(nprops, 0), distinct_nontrivial=len(reach_ok),
            rule='evaluations = cbmc properties decided by the SAT solver over ALL symbolic inputs within the bounds (one solver query set per harness entry); '
                 'distinct_nontrivial = harness entries whose reachability witness was returned by the solver AND replayed on the g++ build of the real code',
            samples=samples, traces_validated_against_impl=validated,
            solver_queries=len(results), cbmc_properties_total=nprops, cbmc_properties_proved=nproved,
            solver='cbmc 6.11.0 + ' + ','.join(sorted(set(u.backend for u in units))),
            solver_s=round(sum(r['solver_s'] for r in results), 1), max_rss_kb=max([r['rss_kb'] for r in results] or [0]),
            functions_encoded=dem[:400], functions_encoded_count=len(fns), library_assert_sites_reachable=sorted(asserts)[:200],
            header_hashes={k.replace(REPO + '/', ''): v for k, v in sorted(hdr.items())},
            stubs=sorted(set(x for u in units for x in u.stubs)),
            translator_validation={k: dict(vectors=v['vectors'], completed=v['completed'], disagreements=len(v['diffs'])) for k, v in diffres.items()},
            known_findings=known_hits, notes=notes[:50], exhaustive=False),
        assumptions=[
            'bounds of each harness (extents, strides, unwind) as listed under samples[].bounds; nothing is claimed outside them',
            'clang-14 -O1 lowering of the wrapper TU is the artefact checked; ll2c translation validated differentially on every run',
            'narrow mode: 64-bit SSA values carried at the listed width under the invariant checked by the NARROW properties (DESIGN 2.3)',
            'symbolic inputs range over [-2^(W-3), 2^(W-3)) before the harness assumptions apply',
            'operator new/delete outside the harness allocator are served from a static arena (no allocation failure, no reuse)'],
        wall_s=round(time.time() - t_start, 1), violations=len(violations))
    os.makedirs(os.path.join(VERIF, 'evidence'), exist_ok=True)
    json.dump(ev, open(os.path.join(VERIF, 'evidence', prop + '.json'), 'w'), indent=1)


if __name__ == '__main__':
    try:
        rc = main()
    except SystemExit:
        raise
    except BaseException as e:   # an internal error of the machinery is never a verdict about the code: exit 2 (BROKEN), not 1
        import traceback
        traceback.print_exc()
        print('BROKEN internal error of the checker: %s: %s' % (type(e).__name__, e))
        sys.exit(2)
    sys.exit(rc if isinstance(rc, int) else 0)
