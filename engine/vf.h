// vf.h -- interface between a C++ wrapper TU (harness) and the checker.
// The same TU is (a) lowered by clang to LLVM IR and translated to C for cbmc, where the five intrinsics below become
// symbolic inputs / assumptions / cbmc properties, and (b) compiled natively by g++ and linked with vf_native.cpp, where
// inputs come from a replay file (a solver counterexample) or a PRNG stream (translator validation).
// RULE: every vf_nondet_*() call is a full statement of its own (g++ and clang order function arguments differently).
#pragma once
extern "C" {
long vf_nondet_long();
int  vf_nondet_int();
void vf_assume(bool);
void vf_assert(bool, const char*);
void vf_reach(const char*);
// is p inside the object [base, base+nbytes) ?  (cbmc: same object and offset in range -- no relational comparison of unrelated pointers)
bool vf_within(const void* p, const void* base, long nbytes);
}
#ifdef VF_NATIVE
extern "C" void vf_register(const char* name, void (*fn)());
struct vf_registrar { vf_registrar(const char* n, void (*f)()) { vf_register(n, f); } };
#define VF_HARNESS(name) extern "C" void vfh_##name(); static vf_registrar vf_reg_##name(#name, &vfh_##name); extern "C" void vfh_##name()
#else
#define VF_HARNESS(name) extern "C" __attribute__((noinline)) void vfh_##name()
#endif
using L = long;
// symbolic value in [lo, hi]
static inline L vf_range(L lo, L hi) { L x = vf_nondet_long(); vf_assume(lo <= x && x <= hi); return x; }
