#!/usr/bin/env python3
"""regenerate /verif/MANIFEST.json from harness/claims.py (one place where claims, notes and not-applicable reasons live)"""
import json, os, sys
V = os.path.dirname(os.path.dirname(os.path.abspath(__file__)))
sys.path.insert(0, os.path.join(V, 'harness')); sys.path.insert(0, os.path.join(V, 'engine'))
import claims, registry
props = [json.loads(l)['id'] for l in open(os.path.join(V, 'properties.jsonl'))]
checks = []; na = []
registered = set(u.prop for u in registry.UNITS)
for p in props:
    c = claims.CLAIMS.get(p)
    if c and p in registered and not c.get('not_applicable'):
        has_thorough = any(u.prop == p and u.tier == 'thorough' for u in registry.UNITS)
        e = dict(property_id=p, quick_cmd='./check %s --tier quick' % p, evidence_file='evidence/%s.json' % p,
                 replay_cmd_template='./check %s --replay {path}' % p, engine='ll2c-cbmc',
                 level_claimed=dict(category='model_checking', text=c['text'], design_ref=c.get('design_ref', 'DESIGN.md section 3/' + p)),
                 level_note=c['note'], technique=c.get('technique', 'bounded symbolic execution of the clang-lowered real templates (own LLVM-IR->C translator) decided by CBMC/SAT; counterexamples replayed on the g++ build'))
        e['thorough_cmd'] = './check %s --tier thorough' % p
        checks.append(e)
    else:
        na.append(dict(property_id=p, reason=(c or {}).get('not_applicable') or 'check not built yet (work in progress; see DESIGN.md for the plan)'))
m = dict(version=1,
         setup_cmd='python3 -m py_compile engine/ll2c.py engine/run.py harness/registry.py harness/claims.py && python3 engine/selftest.py',
         hooks=dict(guard='BOOST_MULTI_VERIF', enable='none needed: every harness uses the public API (subarray(layout, base), layout_t constructors, allocator/archive customisation points); no hook commits exist',
                    baseline_off_cmd='/verif/baseline.sh', source_commits=[], add_only=True),
         engines=[dict(name='ll2c-cbmc', path='engine/run.py', serves_properties=[c['property_id'] for c in checks],
                       kind_free_text='clang++-14 -O1 -emit-llvm of C++ wrapper TUs over /repo/include -> engine/ll2c.py (LLVM IR -> C) -> cbmc 6.11 (cadical/kissat); native g++ replay + differential translator validation')],
         checks=checks, not_applicable=na,
         notes='Every check regenerates IR and C from /repo/include of the current working tree on every run. Exit 0 = all obligations proved within the stated bounds; 1 = VIOLATION (replayed on the g++ build); 2 = INCONCLUSIVE/BROKEN (never reported as success). known_findings.json lists genuine defects fixed in /repo (fix: commits) or recorded.')
json.dump(m, open(os.path.join(V, 'MANIFEST.json'), 'w'), indent=1)
print('MANIFEST.json: %d checks, %d not applicable' % (len(checks), len(na)))
