; ModuleID = '/tmp/w1/mini.cpp'
source_filename = "/tmp/w1/mini.cpp"
target datalayout = "e-m:e-p270:32:32-p271:32:32-p272:64:64-i64:64-f80:128-n8:16:32:64-S128"
target triple = "x86_64-pc-linux-gnu"

@.str = private unnamed_addr constant [13 x i8] c"sum is right\00", align 1
@.str.1 = private unnamed_addr constant [5 x i8] c"mini\00", align 1

; Function Attrs: mustprogress noinline uwtable
define dso_local void @vfh_mini() local_unnamed_addr #0 {
  %1 = call i64 @vf_nondet_long()
  %2 = icmp ult i64 %1, 6
  call void @vf_assume(i1 noundef zeroext %2)
  %3 = call i64 @vf_nondet_long()
  %4 = icmp ult i64 %3, 6
  call void @vf_assume(i1 noundef zeroext %4)
  %5 = icmp sgt i64 %1, 0
  %6 = mul i64 %3, %1
  %7 = select i1 %5, i64 %6, i64 0
  %8 = mul nsw i64 %3, %1
  %9 = icmp eq i64 %7, %8
  call void @vf_assert(i1 noundef zeroext %9, i8* noundef getelementptr inbounds ([13 x i8], [13 x i8]* @.str, i64 0, i64 0))
  call void @vf_reach(i8* noundef getelementptr inbounds ([5 x i8], [5 x i8]* @.str.1, i64 0, i64 0))
  ret void
}

declare void @vf_assert(i1 noundef zeroext, i8* noundef) local_unnamed_addr #1

declare void @vf_reach(i8* noundef) local_unnamed_addr #1

declare i64 @vf_nondet_long() local_unnamed_addr #1

declare void @vf_assume(i1 noundef zeroext) local_unnamed_addr #1

attributes #0 = { mustprogress noinline uwtable "frame-pointer"="none" "min-legal-vector-width"="0" "no-trapping-math"="true" "stack-protector-buffer-size"="8" "target-cpu"="x86-64" "target-features"="+cx8,+fxsr,+mmx,+sse,+sse2,+x87" "tune-cpu"="generic" }
attributes #1 = { "frame-pointer"="none" "no-trapping-math"="true" "stack-protector-buffer-size"="8" "target-cpu"="x86-64" "target-features"="+cx8,+fxsr,+mmx,+sse,+sse2,+x87" "tune-cpu"="generic" }

!llvm.module.flags = !{!0, !1, !2, !3}
!llvm.ident = !{!4}

!0 = !{i32 1, !"wchar_size", i32 4}
!1 = !{i32 7, !"PIC Level", i32 2}
!2 = !{i32 7, !"PIE Level", i32 2}
!3 = !{i32 7, !"uwtable", i32 1}
!4 = !{!"Debian clang version 14.0.6"}
