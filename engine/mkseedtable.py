#!/usr/bin/env python3
"""print the markdown table of seeded breaking changes (DESIGN.md section 10) from /verif/seeded/*/meta.json"""
import json, glob, os
rows = []
for d in sorted(glob.glob('/verif/seeded/*/')):
    m = json.load(open(d + 'meta.json')); name = os.path.basename(d.rstrip('/'))
    what = (m.get('what') or '').replace('\n', ' ').replace('|', '/')
    needs = (m.get('needs') or '').replace('\n', ' ').replace('|', '/')
    det = ', '.join(m.get('detected_by') or []) or '**none**'
    first = ''
    for c, v in m.get('checks', {}).items():
        if v.get('first'): first = v['first'].split('#', 1)[-1].strip()[:150]; break
    rows.append('| `%s` | %s | %s | %s | %s |' % (name, m.get('property'), (what[:260] + ('...' if len(what) > 260 else '')), (needs[:200] + ('...' if len(needs) > 200 else '')), det + ((' - ' + first.replace('|', '/')) if first else '')))
print('| seeded change | breaks | what was changed | needs | caught by (first violated obligation) |\n|---|---|---|---|---|')
print('\n'.join(rows))
