#!/usr/bin/env python3
"""ll2c: translate a subset of LLVM-14 textual IR (clang++ -O1 output of small C++ wrapper TUs)
into plain C that the CBMC C front end accepts.

Memory model: every pointer is `char*`; GEPs are byte arithmetic computed with the x86-64 data layout;
loads/stores are typed accesses through casts.  Integers are signless: unsigned C types, with signed
casts for sdiv/srem/ashr/icmp s* and for nsw arithmetic (so CBMC's signed-overflow check sees UB).
C++ exceptions are lowered to a global pending flag (see eh_prelude).
"""
import re, sys, argparse

# ---------------------------------------------------------------- tokenizer
TOK = re.compile(r'''
    (?P<ws>\s+)
  | (?P<str>c"(?:[^"\\]|\\[0-9A-Fa-f]{2}|\\\\)*")
  | (?P<gid>@"(?:[^"])*"|@[-A-Za-z$._0-9]+)
  | (?P<lid>%"(?:[^"])*"|%[-A-Za-z$._0-9]+)
  | (?P<meta>![A-Za-z_.0-9]*(?:\([^)]*\))?)
  | (?P<attr>\#[0-9]+)
  | (?P<comdat>\$[-A-Za-z$._0-9"]+)
  | (?P<num>-?[0-9]+(?:\.[0-9]+(?:e[+-]?[0-9]+)?)?|0x[0-9A-Fa-f]+)
  | (?P<word>[A-Za-z_][A-Za-z_0-9.]*)
  | (?P<dots>\.\.\.)
  | (?P<qstr>"[^"]*")
  | (?P<p>[(){}\[\]<>,*=:])
''', re.X)

def tokenize(s):
    out = []; i = 0
    while i < len(s):
        if s[i] == ';':  # comment
            break
        m = TOK.match(s, i)
        if not m: raise SyntaxError('tokenize: %r' % s[i:i+40])
        i = m.end()
        if m.lastgroup == 'ws': continue
        out.append((m.lastgroup, m.group(m.lastgroup)))
    return out

# ---------------------------------------------------------------- types
class Ty:
    pass
class IntTy(Ty):
    def __init__(s, bits): s.bits = bits
    def __repr__(s): return 'i%d' % s.bits
class FloatTy(Ty):
    def __init__(s, name): s.name = name
    def __repr__(s): return s.name
class VoidTy(Ty):
    def __repr__(s): return 'void'
class PtrTy(Ty):
    def __init__(s, to): s.to = to
    def __repr__(s): return '%r*' % (s.to,)
class ArrTy(Ty):
    def __init__(s, n, el): s.n = n; s.el = el
    def __repr__(s): return '[%d x %r]' % (s.n, s.el)
class StructTy(Ty):
    def __init__(s, fields, packed=False, name=None): s.fields = fields; s.packed = packed; s.name = name; s.opaque = fields is None
    def __repr__(s): return s.name or ('{%s}' % ', '.join(map(repr, s.fields)))
class FnTy(Ty):
    def __init__(s, ret, params, vararg): s.ret = ret; s.params = params; s.vararg = vararg
    def __repr__(s): return '%r(%s)' % (s.ret, ','.join(map(repr, s.params)))
class NamedTy(Ty):
    def __init__(s, name, mod): s.name = name; s.mod = mod
    def resolve(s): return s.mod.types[s.name]
    def __repr__(s): return s.name

def res(t):
    while isinstance(t, NamedTy): t = t.resolve()
    return t

def sizeof(t):
    t = res(t)
    if isinstance(t, IntTy): return max(1, (t.bits + 7) // 8) if t.bits <= 64 else 16
    if isinstance(t, FloatTy): return {'float': 4, 'double': 8, 'x86_fp80': 16, 'half': 2}[t.name]
    if isinstance(t, PtrTy): return 8
    if isinstance(t, ArrTy): return t.n * sizeof(t.el)
    if isinstance(t, StructTy):
        if t.opaque: return 1   # opaque external objects (e.g. OpenMPI's predefined handles): only their address is used
        return struct_layout(t)[1]
    raise ValueError('sizeof %r' % (t,))

def alignof(t):
    t = res(t)
    if isinstance(t, IntTy): return min(16, 1 << max(0, (sizeof(t) - 1).bit_length()))
    if isinstance(t, FloatTy): return sizeof(t)
    if isinstance(t, PtrTy): return 8
    if isinstance(t, ArrTy): return alignof(t.el)
    if isinstance(t, StructTy):
        if t.opaque or t.packed or not t.fields: return 1
        return max(alignof(f) for f in t.fields)
    raise ValueError('alignof %r' % (t,))

def struct_layout(t):
    off = 0; offs = []
    for f in t.fields:
        a = 1 if t.packed else alignof(f)
        off = (off + a - 1) // a * a
        offs.append(off); off += sizeof(f)
    a = alignof(t)
    return offs, (off + a - 1) // a * a

class P:
    """token-stream parser helpers"""
    def __init__(s, toks, mod): s.t = toks; s.i = 0; s.mod = mod
    def peek(s, k=0): return s.t[s.i + k] if s.i + k < len(s.t) else (None, None)
    def next(s): x = s.t[s.i]; s.i += 1; return x
    def accept(s, v):
        if s.peek()[1] == v: s.i += 1; return True
        return False
    def expect(s, v):
        x = s.next()
        if x[1] != v: raise SyntaxError('expected %r got %r in %r' % (v, x, s.t[max(0,s.i-6):s.i+6]))
    def at_end(s): return s.i >= len(s.t)

    def type(s):
        k, v = s.next()
        if k == 'word':
            if v == 'void': t = VoidTy()
            elif re.fullmatch(r'i[0-9]+', v): t = IntTy(int(v[1:]))
            elif v in ('float', 'double', 'half', 'x86_fp80'): t = FloatTy(v)
            elif v == 'opaque': t = StructTy(None)
            elif v in ('label', 'metadata', 'token'): t = VoidTy()
            else: raise SyntaxError('type word %r' % v)
        elif k == 'lid': t = NamedTy(v, s.mod)
        elif v == '{':
            fs = []
            if not s.accept('}'):
                while True:
                    fs.append(s.type())
                    if s.accept('}'): break
                    s.expect(',')
            t = StructTy(fs)
        elif v == '<':
            if s.peek()[1] == '{':
                s.next(); fs = []
                if not s.accept('}'):
                    while True:
                        fs.append(s.type())
                        if s.accept('}'): break
                        s.expect(',')
                s.expect('>'); t = StructTy(fs, packed=True)
            else:
                raise SyntaxError('vector types unsupported')
        elif v == '[':
            n = int(s.next()[1]); s.expect('x'); el = s.type(); s.expect(']'); t = ArrTy(n, el)
        else:
            raise SyntaxError('type token %r' % ((k, v),))
        while True:
            if s.accept('*'): t = PtrTy(t)
            elif s.peek()[1] == '(' and not isinstance(t, VoidTy) or (s.peek()[1] == '(' and isinstance(t, VoidTy)):
                # function type: ret (params)
                save = s.i
                try:
                    s.next(); ps = []; va = False
                    if not s.accept(')'):
                        while True:
                            if s.peek()[0] == 'dots': s.next(); va = True
                            else: ps.append(s.type())
                            if s.accept(')'): break
                            s.expect(',')
                    t = FnTy(t, ps, va)
                except SyntaxError:
                    s.i = save; break
            else: break
        return t

PARAM_ATTRS = {'noundef','nonnull','nocapture','readonly','writeonly','noalias','returned','signext','zeroext','inreg','nofree','immarg','readnone','nest','swiftself'}
FN_WORDS = {'dso_local','local_unnamed_addr','unnamed_addr','linkonce_odr','internal','private','weak_odr','weak','available_externally','hidden','protected','fastcc','ccc','noundef','nonnull','signext','zeroext','noalias','external','comdat','align','dereferenceable','dereferenceable_or_null','common','constant','global','thread_local','extern_weak','appending'}

def skip_param_attrs(p):
    byval = None; sret = None
    while True:
        k, v = p.peek()
        if v in PARAM_ATTRS: p.next()
        elif v in ('align', 'dereferenceable', 'dereferenceable_or_null'):
            p.next()
            if p.accept('('): p.next(); p.expect(')')
            else: p.next()
        elif v in ('byval', 'sret', 'inalloca', 'byref', 'preallocated', 'elementtype'):
            p.next(); p.expect('('); t = p.type(); p.expect(')')
            if v == 'byval': byval = t
            if v == 'sret': sret = t
        else: break
    return byval, sret

# ---------------------------------------------------------------- values (operands & constant exprs)
class Val:
    def __init__(s, kind, ty, **kw): s.kind = kind; s.ty = ty; s.__dict__.update(kw)
    def __repr__(s): return 'Val(%s,%r,%s)' % (s.kind, s.ty, {k: v for k, v in s.__dict__.items() if k not in ('kind', 'ty')})

def parse_value(p, ty):
    """parse an operand of known type ty"""
    k, v = p.next()
    if k == 'lid': return Val('local', ty, name=v)
    if k == 'gid': return Val('global', ty, name=v)
    if k == 'num':
        if isinstance(res(ty), FloatTy): return Val('fconst', ty, text=v)
        return Val('int', ty, value=int(v, 0))
    if k == 'word':
        if v == 'true': return Val('int', ty, value=1)
        if v == 'false': return Val('int', ty, value=0)
        if v == 'null': return Val('null', ty)
        if v in ('undef', 'poison'): return Val('undef', ty)
        if v == 'zeroinitializer': return Val('zero', ty)
        if v in ('getelementptr',):
            inb = p.accept('inbounds'); p.expect('(')
            st = p.type(); p.expect(',')
            bt = p.type(); base = parse_value(p, bt); idx = []
            while p.accept(','):
                p.accept('inrange')
                it = p.type(); idx.append(parse_value(p, it))
            p.expect(')')
            return Val('cgep', ty, srcty=st, base=base, idx=idx)
        if v in ('bitcast', 'ptrtoint', 'inttoptr', 'addrspacecast', 'trunc', 'zext', 'sext'):
            p.expect('('); ft = p.type(); x = parse_value(p, ft); p.expect('to'); tt = p.type(); p.expect(')')
            return Val('ccast', tt, op=v, x=x)
        if v == 'icmp':
            pred = p.next()[1]; p.expect('('); t1 = p.type(); a = parse_value(p, t1); p.expect(','); t2 = p.type(); b = parse_value(p, t2); p.expect(')')
            return Val('cicmp', IntTy(1), pred=pred, a=a, b=b, opty=t1)
        if v == 'select':
            p.expect('('); tc = p.type(); c = parse_value(p, tc); p.expect(','); t1 = p.type(); a = parse_value(p, t1); p.expect(','); t2 = p.type(); b = parse_value(p, t2); p.expect(')')
            return Val('cselect', t1, c=c, a=a, b=b)
        if v in ('add', 'sub', 'mul', 'sdiv', 'udiv', 'srem', 'urem', 'and', 'or', 'xor', 'shl', 'lshr', 'ashr'):
            while p.peek()[1] in ('nsw', 'nuw', 'exact'): p.next()
            p.expect('('); t1 = p.type(); a = parse_value(p, t1); p.expect(','); t2 = p.type(); b = parse_value(p, t2); p.expect(')')
            return Val('cbin', t1, op=v, a=a, b=b)
    if v == '{' or v == '[' or v == '<':
        # aggregate constant
        close = {'{': '}', '[': ']', '<': '>'}[v]
        packed = False
        if v == '<' and p.peek()[1] == '{': p.next(); packed = True
        elems = []
        endtok = '}' if packed else close
        if not p.accept(endtok):
            while True:
                et = p.type(); elems.append(parse_value(p, et))
                if p.accept(endtok): break
                p.expect(',')
        if packed: p.expect('>')
        return Val('agg', ty, elems=elems)
    if k == 'str':
        return Val('cstr', ty, text=v)
    raise SyntaxError('value %r' % ((k, v),))

# ---------------------------------------------------------------- module model
class Fn:
    def __init__(s): s.blocks = []; s.params = []; s.name = None; s.ret = None; s.defined = False; s.vararg = False
class Block:
    def __init__(s, name): s.name = name; s.insts = []
class Inst:
    def __init__(s, op, dst=None, **kw): s.op = op; s.dst = dst; s.__dict__.update(kw)

class Module:
    def __init__(s): s.types = {}; s.globals = {}; s.fns = {}; s.order = []

def strip_trailing(toks):
    """remove trailing metadata attachments (', !x !y') and attribute group refs"""
    out = []
    i = 0
    while i < len(toks):
        k, v = toks[i]
        if k == 'meta' and i > 0 and out and out[-1][1] == ',':
            out.pop()  # the comma
            # skip '!name !N' pairs
            while i < len(toks) and toks[i][0] == 'meta': i += 1
            continue
        if k == 'attr': i += 1; continue
        out.append((k, v)); i += 1
    return out

BINOPS = {'add', 'sub', 'mul', 'sdiv', 'udiv', 'srem', 'urem', 'and', 'or', 'xor', 'shl', 'lshr', 'ashr'}
FBINOPS = {'fadd', 'fsub', 'fmul', 'fdiv', 'frem'}
CASTS = {'bitcast', 'ptrtoint', 'inttoptr', 'trunc', 'zext', 'sext', 'addrspacecast', 'sitofp', 'uitofp', 'fptosi', 'fptoui', 'fpext', 'fptrunc'}

def parse_call(p, mod, is_invoke):
    # [cconv] [ret attrs] <ty> [<fnty>] <callee>(<args>) [fn attrs]
    while p.peek()[1] in ('fastcc', 'ccc', 'tail', 'musttail', 'notail'): p.next()
    skip_param_attrs(p)
    rty = p.type()
    if isinstance(rty, FnTy): fnty = rty; rty = rty.ret
    elif isinstance(res(rty), PtrTy) and isinstance(res(res(rty).to), FnTy) and p.peek()[0] not in ('gid', 'lid'):
        pass
    k, v = p.next()
    if k == 'gid': callee = Val('global', None, name=v)
    elif k == 'lid': callee = Val('local', None, name=v)
    elif v in ('bitcast',):
        p.expect('('); ft = p.type(); x = parse_value(p, ft); p.expect('to'); tt = p.type(); p.expect(')')
        callee = x
    else: raise SyntaxError('callee %r' % ((k, v),))
    p.expect('('); args = []
    if not p.accept(')'):
        while True:
            at = p.type(); byval, sret = skip_param_attrs(p)
            if isinstance(at, VoidTy) and p.peek()[0] == 'meta':  # metadata arg
                p.next(); args.append(None)
            else:
                a = parse_value(p, at); a.byval = byval; args.append(a)
            if p.accept(')'): break
            p.expect(',')
    return rty, callee, args

def parse_inst(toks, mod):
    toks = strip_trailing(toks)
    p = P(toks, mod)
    dst = None
    if p.peek()[0] == 'lid' and p.peek(1)[1] == '=':
        dst = p.next()[1]; p.next()
    k, op = p.next()
    if op in ('tail', 'musttail', 'notail'): k, op = p.next()
    if op in BINOPS or op in FBINOPS:
        flags = set()
        while p.peek()[1] in ('nsw', 'nuw', 'exact', 'fast', 'nnan', 'ninf', 'nsz', 'arcp', 'contract', 'reassoc', 'afn'): flags.add(p.next()[1])
        ty = p.type(); a = parse_value(p, ty); p.expect(','); b = parse_value(p, ty)
        return Inst('bin', dst, bop=op, ty=ty, a=a, b=b, flags=flags)
    if op == 'fneg':
        ty = p.type(); a = parse_value(p, ty); return Inst('fneg', dst, ty=ty, a=a)
    if op in ('icmp', 'fcmp'):
        pred = p.next()[1]; ty = p.type(); a = parse_value(p, ty); p.expect(','); b = parse_value(p, ty)
        return Inst(op, dst, pred=pred, ty=ty, a=a, b=b)
    if op in CASTS:
        ft = p.type(); x = parse_value(p, ft); p.expect('to'); tt = p.type()
        return Inst('cast', dst, cop=op, fty=ft, tty=tt, x=x)
    if op == 'select':
        ct = p.type(); c = parse_value(p, ct); p.expect(','); t1 = p.type(); a = parse_value(p, t1); p.expect(','); t2 = p.type(); b = parse_value(p, t2)
        return Inst('select', dst, c=c, ty=t1, a=a, b=b)
    if op == 'phi':
        ty = p.type(); inc = []
        while True:
            p.expect('['); v = parse_value(p, ty); p.expect(','); lab = p.next()[1]; p.expect(']')
            inc.append((v, lab))
            if not p.accept(','): break
        return Inst('phi', dst, ty=ty, inc=inc)
    if op == 'alloca':
        ty = p.type(); n = None; align = None
        while p.accept(','):
            if p.accept('align'): align = int(p.next()[1])
            else: nt = p.type(); n = parse_value(p, nt)
        return Inst('alloca', dst, ty=ty, n=n, align=align)
    if op == 'load':
        p.accept('volatile'); ty = p.type(); p.expect(','); pt = p.type(); ptr = parse_value(p, pt)
        return Inst('load', dst, ty=ty, ptr=ptr)
    if op == 'store':
        p.accept('volatile'); ty = p.type(); v = parse_value(p, ty); p.expect(','); pt = p.type(); ptr = parse_value(p, pt)
        return Inst('store', None, ty=ty, v=v, ptr=ptr)
    if op == 'getelementptr':
        p.accept('inbounds'); st = p.type(); p.expect(','); bt = p.type(); base = parse_value(p, bt); idx = []
        while p.accept(','):
            it = p.type(); idx.append(parse_value(p, it))
        return Inst('gep', dst, srcty=st, base=base, idx=idx)
    if op == 'br':
        if p.accept('label'): return Inst('br', None, target=p.next()[1])
        ct = p.type(); c = parse_value(p, ct); p.expect(','); p.expect('label'); t = p.next()[1]; p.expect(','); p.expect('label'); f = p.next()[1]
        return Inst('condbr', None, c=c, t=t, f=f)
    if op == 'switch':
        ty = p.type(); v = parse_value(p, ty); p.expect(','); p.expect('label'); dflt = p.next()[1]; p.expect('['); cases = []
        while not p.accept(']'):
            ct = p.type(); cv = parse_value(p, ct); p.expect(','); p.expect('label'); cases.append((cv, p.next()[1]))
        return Inst('switch', None, ty=ty, v=v, dflt=dflt, cases=cases)
    if op == 'ret':
        ty = p.type()
        if isinstance(ty, VoidTy): return Inst('ret', None, v=None, ty=ty)
        return Inst('ret', None, v=parse_value(p, ty), ty=ty)
    if op == 'unreachable': return Inst('unreachable')
    if op == 'call':
        rty, callee, args = parse_call(p, mod, False)
        return Inst('call', dst, rty=rty, callee=callee, args=args)
    if op == 'invoke':
        rty, callee, args = parse_call(p, mod, True)
        p.expect('to'); p.expect('label'); ok = p.next()[1]; p.expect('unwind'); p.expect('label'); uw = p.next()[1]
        return Inst('invoke', dst, rty=rty, callee=callee, args=args, ok=ok, uw=uw)
    if op == 'landingpad':
        ty = p.type(); cleanup = False; clauses = []
        while not p.at_end():
            w = p.next()[1]
            if w == 'cleanup': cleanup = True
            elif w == 'catch': ct = p.type(); clauses.append(('catch', parse_value(p, ct)))
            elif w == 'filter': ct = p.type(); clauses.append(('filter', parse_value(p, ct)))
        return Inst('landingpad', dst, ty=ty, cleanup=cleanup, clauses=clauses)
    if op == 'resume':
        ty = p.type(); return Inst('resume', None, ty=ty, v=parse_value(p, ty))
    if op == 'extractvalue':
        ty = p.type(); v = parse_value(p, ty); idx = []
        while p.accept(','): idx.append(int(p.next()[1]))
        return Inst('extractvalue', dst, ty=ty, v=v, idx=idx)
    if op == 'insertvalue':
        ty = p.type(); v = parse_value(p, ty); p.expect(','); et = p.type(); e = parse_value(p, et); idx = []
        while p.accept(','): idx.append(int(p.next()[1]))
        return Inst('insertvalue', dst, ty=ty, v=v, ety=et, e=e, idx=idx)
    if op == 'freeze':
        ty = p.type(); return Inst('cast', dst, cop='bitcast', fty=ty, tty=ty, x=parse_value(p, ty))
    raise SyntaxError('unsupported instruction %r' % op)

def parse_module(text):
    mod = Module()
    lines = text.split('\n')
    i = 0
    cur = None; blk = None
    while i < len(lines):
        line = lines[i]; i += 1
        s = line.strip()
        if not s or s.startswith(';'):
            continue
        if cur is None:
            if s.startswith(('target ', 'source_filename', 'attributes ', '!', '$', 'module asm')): continue
            toks = tokenize(s)
            if toks[0][0] == 'lid' and toks[1][1] == '=' and toks[2][1] == 'type':
                p = P(toks[3:], mod); t = p.type()
                if isinstance(t, StructTy): t.name = toks[0][1]
                mod.types[toks[0][1]] = t
                continue
            if toks[0][0] == 'gid' and toks[1][1] == '=':
                name = toks[0][1]; p = P(strip_trailing(toks[2:]), mod)
                if name.startswith('@llvm.'): continue
                external = False; const = False
                while p.peek()[1] in FN_WORDS and p.peek()[1] not in ('global', 'constant'):
                    if p.peek()[1] in ('external', 'extern_weak'): external = True
                    w = p.next()[1]
                    if w == 'thread_local' and p.accept('('): p.next(); p.expect(')')
                kind = p.next()[1]
                if kind == 'alias': continue
                ty = p.type(); init = None
                if not external and not p.at_end() and p.peek()[1] != ',':
                    init = parse_value(p, ty)
                align = None
                while p.accept(','):
                    w = p.next()[1]
                    if w == 'align': align = int(p.next()[1])
                mod.globals[name] = dict(name=name, ty=ty, init=init, const=(kind == 'constant'), external=external, align=align)
                continue
            if toks[0][1] in ('declare', 'define'):
                f = Fn(); f.defined = toks[0][1] == 'define'
                p = P(strip_trailing(toks[1:]), mod)
                while p.peek()[1] in FN_WORDS:
                    w = p.next()[1]
                    if w in ('align', 'dereferenceable', 'dereferenceable_or_null'):
                        if p.accept('('): p.next(); p.expect(')')
                        else: p.next()
                f.ret = p.type(); f.name = p.next()[1]; p.expect('(')
                if not p.accept(')'):
                    n = 0
                    while True:
                        if p.peek()[0] == 'dots': p.next(); f.vararg = True
                        else:
                            pt = p.type(); byval, sret = skip_param_attrs(p)
                            pname = None
                            if p.peek()[0] == 'lid': pname = p.next()[1]
                            else: pname = '%' + str(n)
                            f.params.append(dict(ty=pt, name=pname, byval=byval, sret=sret)); n += 1
                        if p.accept(')'): break
                        p.expect(',')
                f.nparams = len(f.params)
                mod.fns[f.name] = f; mod.order.append(f.name)
                if f.defined:
                    cur = f; blk = Block('%' + str(len(f.params))); f.blocks.append(blk)  # implicit entry label
                continue
            raise SyntaxError('top-level: %r' % s[:80])
        else:
            if s == '}':
                cur = None; blk = None; continue
            m = re.match(r'^([-A-Za-z$._0-9]+|"[^"]*"):', s)
            if m:
                blk = Block('%' + m.group(1)); cur.blocks.append(blk); continue
            # landingpad / switch continuation lines
            full = s
            if s.startswith('switch') or ' switch ' in s:
                while ']' not in full:
                    full += ' ' + lines[i].strip(); i += 1
            if re.search(r'(^|= )invoke ', s) and ' unwind label ' not in s:
                full += ' ' + lines[i].strip(); i += 1
            if 'landingpad' in s:
                while i < len(lines) and re.match(r'^\s+(cleanup|catch|filter)\b', lines[i]):
                    full += ' ' + lines[i].strip(); i += 1
            try:
                blk.insts.append(parse_inst(tokenize(full), mod))
            except Exception as e:
                raise SyntaxError('%s: in %s: %s' % (e, cur.name, full[:200]))
    return mod

# ---------------------------------------------------------------- C emission
def cid(name):
    n = name[1:]
    if n.startswith('"'): n = n[1:-1]
    n = re.sub(r'[^A-Za-z0-9_]', lambda m: '_%02x_' % ord(m.group(0)), n)
    if name[0] == '%': return 'v_' + n
    return n

LIBC = {  # IR external name -> C name implemented in ll2c_rt.h
    'memcmp': 'rt_memcmp', 'bcmp': 'rt_memcmp', 'strlen': 'rt_strlen',
    'memcpy': 'rt_memmove', 'memmove': 'rt_memmove', 'memset': 'rt_memset',
}
CXXRT = ('__assert_fail', '__cxa_allocate_exception', '__cxa_throw', '__cxa_rethrow', '__cxa_begin_catch', '__cxa_end_catch',
         '__cxa_free_exception', '__clang_call_terminate', '_ZSt9terminatev', '_Znwm', '_Znam', '_ZdlPv', '_ZdaPv', '_ZdlPvm', '_ZdaPvm', '_ZnwmRKSt9nothrow_t', '_ZnamRKSt9nothrow_t', '_ZdlPvRKSt9nothrow_t', '_ZdaPvRKSt9nothrow_t',
         '__gxx_personality_v0', 'vf_assume', 'vf_assert', 'vf_reach', 'vf_nondet_long', 'vf_nondet_int', 'vf_within')

class Emitter:
    def __init__(s, mod, narrow=0, prefix_ext='', keep=None):
        s.mod = mod; s.narrow = narrow; s.out = []; s.aggs = {}; s.keep = keep; s.untyped = False
        s.typeinfos = []

    # ---- C types
    def cty(s, t):
        t = res(t)
        if isinstance(t, IntTy):
            if t.bits == 1: return 'u1'
            if t.bits in (8, 16, 32, 64, 128): return 'u%d' % t.bits
            return 'u%d' % ((t.bits + 7) // 8 * 8)
        if isinstance(t, FloatTy): return {'float': 'float', 'double': 'double'}[t.name]
        if isinstance(t, PtrTy): return 'ptr'
        if isinstance(t, StructTy) or isinstance(t, ArrTy):
            return s.aggty(t)
        if isinstance(t, VoidTy): return 'void'
        raise ValueError('cty %r' % (t,))
    def sty(s, t):
        t = res(t); assert isinstance(t, IntTy), t
        return 's%d' % (1 if t.bits == 1 else t.bits)
    def aggty(s, t):
        """first-class aggregate values (rare): represent as C struct of bytes with typed accessors"""
        key = repr(t) + ('#%d' % sizeof(t))
        if key not in s.aggs:
            s.aggs[key] = 'agg%d' % len(s.aggs)
            s.aggdefs = getattr(s, 'aggdefs', [])
            s.aggdefs.append('typedef struct { char b[%d] __attribute__((aligned(%d))); } %s;' % (max(1, sizeof(t)), alignof(t), s.aggs[key]))
        return s.aggs[key]

    def agg_offset(s, t, idx):
        off = 0
        for i in idx:
            t = res(t)
            if isinstance(t, StructTy): off += struct_layout(t)[0][i]; t = t.fields[i]
            elif isinstance(t, ArrTy): off += i * sizeof(t.el); t = t.el
            else: raise ValueError('agg idx')
        return off, t

    # ---- values
    def v(s, x, fn=None):
        k = x.kind
        if k == 'local': return cid(x.name)
        if k == 'global':
            if x.name in s.mod.fns: return '((ptr)&%s)' % s.fname(x.name)
            return '((ptr)&%s)' % s.gname(x.name)
        if k == 'int':
            t = res(x.ty)
            if isinstance(t, PtrTy): return '((ptr)%d)' % x.value
            bits = t.bits; val = x.value & ((1 << bits) - 1)
            if bits == 1: return '((u1)%d)' % val
            if bits > 64: return '((%s)%dULL)' % (s.cty(t), val)  # only small constants expected
            if bits == 64:
                sv = val - (1 << 64) if val >= (1 << 63) else val
                if not (-(1 << 31) <= sv < (1 << 31)): return ('C64BIG(%dULL)' if getattr(s, 'big_ok', False) else 'C64BIG_V(%dULL)') % val   # narrow mode: not representable; as a VALUE it raises a NARROW property (ll2c_rt.h), comparisons against it are decided exactly by icmp()
            return '((%s)%dULL)' % (s.cty(t), val)
        if k == 'null': return '((ptr)0)'
        if k in ('undef', 'zero'):
            t = res(x.ty)
            if isinstance(t, (StructTy, ArrTy)): return '((%s){{0}})' % s.cty(t)
            if isinstance(t, PtrTy): return '((ptr)0)'
            if isinstance(t, FloatTy): return '0.0'
            return '((%s)0)' % s.cty(t)
        if k == 'fconst':
            return x.text if not x.text.startswith('0x') else 'hexdouble(%sULL)' % x.text
        if k == 'cgep':
            return '(%s + (%s))' % (s.v(x.base), s.gep_off(x.srcty, x.idx))
        if k == 'ccast':
            return s.castexpr(x.op, x.x.ty, x.ty, s.v(x.x))
        if k == 'cicmp':
            class _I: pass
            i = _I(); i.ty = x.opty; i.a = x.a; i.b = x.b; i.pred = x.pred
            return s.icmp(i)
        if k == 'cselect':
            return '(%s ? %s : %s)' % (s.v(x.c), s.v(x.a), s.v(x.b))
        if k == 'cbin':
            class _B: pass
            i = _B(); i.ty = x.ty; i.a = x.a; i.b = x.b; i.bop = x.op; i.flags = set(); i.dst = None
            return s.binexpr(i)
        if k == 'agg':   # constant first-class aggregate (e.g. `ret { double, double } { double 7.0, double 8.0 }`): built by a statement expression
            t = s.cty(x.ty)
            return '({ %s agg_c; __builtin_memset(&agg_c, 0, sizeof agg_c); %s agg_c; })' % (t, ' '.join(s.init_stmts('agg_c.b', 0, x)))
        raise ValueError('value kind %s' % k)

    def gname(s, n): return 'g_' + cid(n) if n.startswith('@.') or n.startswith('@__PRETTY') else cid(n)
    def fname(s, n):
        f = s.mod.fns.get(n)
        c = cid(n)
        if f is not None and not f.defined: return 'ext_' + c
        return c

    def gep_off(s, srcty, idx):
        """byte offset expression (signed 64-bit C expr) of GEP indices"""
        terms = []; const = 0
        t = srcty
        for n, ix in enumerate(idx):
            if n == 0: esz = sizeof(t); nt = t
            else:
                rt = res(t)
                if isinstance(rt, StructTy):
                    assert ix.kind == 'int', 'struct gep index must be const'
                    const += struct_layout(rt)[0][ix.value]; t = rt.fields[ix.value]; continue
                elif isinstance(rt, ArrTy): esz = sizeof(rt.el); nt = rt.el
                else: raise ValueError('gep into %r' % (rt,))
            if ix.kind == 'int':
                val = ix.value
                bits = res(ix.ty).bits
                if val >= 1 << (bits - 1): val -= 1 << bits
                const += val * esz
            else:
                terms.append('(sptr)(%s)%s * (sptr)%d' % (s.sty(ix.ty), s.v(ix), esz))
            t = nt
        terms.append('(sptr)%d' % const)
        return ' + '.join(terms)

    def castexpr(s, op, ft, tt, x):
        ft = res(ft); tt = res(tt)
        if op in ('bitcast', 'addrspacecast'):
            if isinstance(ft, PtrTy) and isinstance(tt, PtrTy): return x
            if repr(ft) == repr(tt): return x
            raise ValueError('bitcast %r -> %r' % (ft, tt))
        if op == 'ptrtoint': return '((%s)PTR2INT(%s))' % (s.cty(tt), x)
        if op == 'inttoptr': return '(INT2PTR(%s))' % x
        if op == 'trunc': return '((%s)(%s))' % (s.cty(tt), x) if tt.bits != 1 else '((u1)((%s) & 1))' % x
        if op == 'zext':
            if tt.bits == 64 and ft.bits == 32: return 'ZEXT32_64(%s)' % x
            return '((%s)(%s))' % (s.cty(tt), x)
        if op == 'sext':
            if ft.bits == 1: return '((%s)((%s) ? -1 : 0))' % (s.cty(tt), x)
            return '((%s)(%s)(%s)(%s))' % (s.cty(tt), s.sty(tt), s.sty(ft), x)
        if op in ('sitofp',): return '((%s)(%s)(%s))' % (s.cty(tt), s.sty(ft), x)
        if op in ('uitofp', 'fpext', 'fptrunc'): return '((%s)(%s))' % (s.cty(tt), x)
        if op == 'fptosi': return '((%s)(%s)(%s))' % (s.cty(tt), s.sty(tt), x)
        if op == 'fptoui': return '((%s)(%s))' % (s.cty(tt), x)
        raise ValueError(op)

    # ---- function bodies
    def emit_fn(s, f):
        o = []
        locals_ = {}
        def decl(name, ty):
            if isinstance(res(ty), VoidTy): return
            locals_[cid(name)] = s.cty(ty)
        for b in f.blocks:
            for ins in b.insts:
                if ins.dst is not None:
                    if ins.op == 'alloca': decl(ins.dst, PtrTy(ins.ty))
                    elif ins.op in ('bin',): decl(ins.dst, ins.ty)
                    elif ins.op in ('icmp', 'fcmp'): decl(ins.dst, IntTy(1))
                    elif ins.op == 'cast': decl(ins.dst, ins.tty)
                    elif ins.op in ('select', 'phi', 'load', 'landingpad', 'insertvalue', 'fneg'): decl(ins.dst, ins.ty)
                    elif ins.op == 'gep': decl(ins.dst, PtrTy(IntTy(8)))
                    elif ins.op in ('call', 'invoke'): decl(ins.dst, ins.rty)
                    elif ins.op == 'extractvalue': decl(ins.dst, s.agg_offset(ins.ty, ins.idx)[1])
        # (shl i64 x, 32) used only by (ashr|lshr i64 ., 32) is LLVM's idiom for sext/zext of the low 32 bits: in narrow mode the pair is
        # emitted as that extension (the intermediate does not fit the narrow width by construction)
        def is_c32(v): return getattr(v, 'kind', None) == 'int' and v.value == 32
        shl32 = {}
        for b in f.blocks:
            for ins in b.insts:
                if ins.op == 'bin' and ins.bop == 'shl' and s.is64(ins.ty) and is_c32(ins.b) and ins.dst: shl32[ins.dst] = ins
        if shl32:
            bad = set()
            def scanv(v, ok_user):
                if isinstance(v, Val):
                    if v.kind == 'local' and v.name in shl32 and not ok_user: bad.add(v.name)
                    for kk in ('base', 'x', 'a', 'b', 'c'):
                        if isinstance(getattr(v, kk, None), Val): scanv(getattr(v, kk), False)
                    for kk in ('idx', 'elems'):
                        for e in getattr(v, kk, None) or []:
                            if isinstance(e, Val): scanv(e, False)
            for b in f.blocks:
                for ins in b.insts:
                    ok = ins.op == 'bin' and ins.bop in ('ashr', 'lshr') and s.is64(ins.ty) and is_c32(ins.b)
                    for k, x in ins.__dict__.items():
                        if k == 'dst': continue
                        if isinstance(x, Val): scanv(x, ok and k == 'a')
                        elif isinstance(x, list):
                            for e in x:
                                if isinstance(e, Val): scanv(e, False)
                                elif isinstance(e, tuple):
                                    for ee in e:
                                        if isinstance(ee, Val): scanv(ee, False)
            for n in bad: del shl32[n]
        s.shl32 = shl32
        params = ', '.join('%s %s' % (s.cty(p['ty']), cid(p['name']) + ('_in' if p['byval'] else '')) for p in f.params) or 'void'
        o.append('%s %s(%s) {' % (s.cty(f.ret), s.fname(f.name), params))
        for n, t in sorted(locals_.items()):
            o.append('  %s %s;' % (t, n))
        # byval copies
        for p in f.params:
            if p['byval']:
                n = cid(p['name']); sz = sizeof(p['byval'])
                o.append('  char %s_cp[%d] __attribute__((aligned(16))); ptr %s = %s_cp; memcpy(%s, %s_in, %d);' % (n, sz, n, n, n, n, sz))
        nalloca = 0
        retdummy = '' if isinstance(res(f.ret), VoidTy) else (' (%s){0}' % s.cty(f.ret) if isinstance(res(f.ret), (StructTy, ArrTy)) else ' (%s)0' % s.cty(f.ret))
        # predecessor map for phi lowering
        phis = {}
        for b in f.blocks:
            for ins in b.insts:
                if ins.op == 'phi': phis.setdefault(b.name, []).append(ins)
        def goto(frm, to):
            """emit phi copies for edge frm->to then goto"""
            ps = phis.get(to, [])
            code = []
            if ps:
                tmps = []
                for n, ph in enumerate(ps):
                    val = [v for v, lab in ph.inc if lab == frm]
                    assert val, 'phi in %s lacks incoming from %s' % (to, frm)
                    code.append('%s phi_t%d = %s;' % (s.cty(ph.ty), n, s.v(val[0])))
                for n, ph in enumerate(ps):
                    code.append('%s = phi_t%d;' % (cid(ph.dst), n))
            code.append('goto %s;' % s.label(to))
            return '{ ' + ' '.join(code) + ' }'
        for b in f.blocks:
            o.append(' %s: ;' % s.label(b.name))
            for ins in b.insts:
                op = ins.op
                d = cid(ins.dst) if ins.dst else None
                if op == 'phi': continue
                elif op == 'alloca':
                    sz = sizeof(ins.ty); nalloca += 1
                    assert ins.n is None or ins.n.kind == 'int', 'dynamic alloca'
                    cnt = ins.n.value if ins.n is not None else 1
                    o.append('  static_or_auto %s; %s = (ptr)&%s_mem;' % (s.obj_decl(ins.ty, d + '_mem', ins.align or 8, cnt), d, d))
                elif op == 'bin':
                    o.append('  %s = %s;' % (d, s.binexpr(ins)))
                elif op == 'fneg': o.append('  %s = -%s;' % (d, s.v(ins.a)))
                elif op == 'icmp':
                    o.append('  %s = %s;' % (d, s.icmp(ins)))
                elif op == 'fcmp':
                    cop = {'oeq': '==', 'one': '!=', 'olt': '<', 'ole': '<=', 'ogt': '>', 'oge': '>=', 'ueq': '==', 'une': '!=', 'ult': '<', 'ule': '<=', 'ugt': '>', 'uge': '>='}[ins.pred]
                    o.append('  %s = (u1)(%s %s %s);' % (d, s.v(ins.a), cop, s.v(ins.b)))
                elif op == 'cast':
                    o.append('  %s = %s;' % (d, s.castexpr(ins.cop, ins.fty, ins.tty, s.v(ins.x))))
                elif op == 'select':
                    o.append('  %s = %s ? %s : %s;' % (d, s.v(ins.c), s.v(ins.a), s.v(ins.b)))
                elif op == 'load':
                    if s.is64(ins.ty): o.append('  %s = LD64(%s);' % (d, s.v(ins.ptr)))
                    else: o.append('  %s = *(%s*)%s;' % (d, s.cty(ins.ty), s.v(ins.ptr)))
                elif op == 'store':
                    if s.is64(ins.ty): o.append('  ST64(%s, %s);' % (s.v(ins.ptr), s.v(ins.v)))
                    else: o.append('  *(%s*)%s = %s;' % (s.cty(ins.ty), s.v(ins.ptr), s.v(ins.v)))
                elif op == 'gep':
                    o.append('  %s = %s + (%s);' % (d, s.v(ins.base), s.gep_off(ins.srcty, ins.idx)))
                elif op == 'br': o.append('  ' + goto(b.name, ins.target))
                elif op == 'condbr':
                    o.append('  if (%s) %s else %s' % (s.v(ins.c), goto(b.name, ins.t), goto(b.name, ins.f)))
                elif op == 'switch':
                    o.append('  switch (%s) {' % s.v(ins.v))
                    for cv, lab in ins.cases:
                        if s.is_big(cv) is not None: o.append('#ifndef LL2C_W\n    case %dULL: %s\n#endif' % (cv.value & ((1 << 64) - 1), goto(b.name, lab)))   # never equal to a value that fits the narrow width
                        else: o.append('    case %s: %s' % (s.v(cv), goto(b.name, lab)))
                    o.append('    default: %s }' % goto(b.name, ins.dflt))
                elif op == 'ret':
                    o.append('  return%s;' % ('' if ins.v is None else ' ' + s.v(ins.v)))
                elif op == 'unreachable':
                    o.append('  __CPROVER_assume(0); return%s;' % retdummy)
                elif op in ('call', 'invoke'):
                    s.emit_call(o, f, b, ins, goto, retdummy)
                elif op == 'landingpad':
                    s.emit_landingpad(o, ins, retdummy)
                elif op == 'resume':
                    o.append('  eh_resume(*(ptr*)(%s).b); return%s;' % (s.v(ins.v), retdummy))
                elif op == 'extractvalue':
                    off, et = s.agg_offset(ins.ty, ins.idx)
                    if s.is64(et): o.append('  { %s agg_tmp = %s; %s = LD64(agg_tmp.b + %d); }' % (s.cty(ins.ty), s.v(ins.v), d, off))
                    else: o.append('  { %s agg_tmp = %s; %s = *(%s*)(agg_tmp.b + %d); }' % (s.cty(ins.ty), s.v(ins.v), d, s.cty(et), off))
                elif op == 'insertvalue':
                    off, et = s.agg_offset(ins.ty, ins.idx)
                    if s.is64(et): o.append('  %s = %s; ST64(%s.b + %d, %s);' % (d, s.v(ins.v), d, off, s.v(ins.e)))
                    else: o.append('  %s = %s; *(%s*)(%s.b + %d) = %s;' % (d, s.v(ins.v), s.cty(et), d, off, s.v(ins.e)))
                else:
                    raise ValueError('emit %s' % op)
        o.append('}')
        return '\n'.join(o)

    def label(s, n): return 'L_' + cid(n)[2:]
    def is64(s, t):
        t = res(t); return isinstance(t, IntTy) and t.bits == 64

    def binexpr(s, ins):
        t = res(ins.ty); a = s.v(ins.a); b = s.v(ins.b); op = ins.bop
        if isinstance(t, FloatTy):
            return '(%s %s %s)' % (a, {'fadd': '+', 'fsub': '-', 'fmul': '*', 'fdiv': '/'}[op], b)
        ct = s.cty(t); st = s.sty(t)
        if t.bits == 1:
            return '((u1)((%s %s %s) & 1))' % (a, {'and': '&', 'or': '|', 'xor': '^', 'add': '^', 'sub': '^', 'mul': '&'}[op], b)
        w64 = t.bits == 64
        sh = getattr(s, 'shl32', {})
        if w64 and op == 'shl' and ins.dst in sh: return 'SHL32_PAIR(%s)' % a
        if w64 and op in ('ashr', 'lshr') and ins.a.kind == 'local' and ins.a.name in sh and ins.b.kind == 'int' and ins.b.value == 32:
            return '%s(%s)' % ('SEXT_LOW32' if op == 'ashr' else 'ZEXT_LOW32', s.v(sh[ins.a.name].a))
        if op in ('add', 'sub', 'mul'):
            o = {'add': '+', 'sub': '-', 'mul': '*'}[op]
            if 'nsw' in ins.flags: return '((%s)((%s)%s %s (%s)%s))' % (ct, st, a, o, st, b)
            if w64: return 'WRAP64(%s, %s, %s)' % (a, o, b)     # narrow mode: carried out signed so that leaving the narrow range is reported
            return '((%s)(%s %s %s))' % (ct, a, o, b)
        if op in ('sdiv', 'srem'):
            return '((%s)((%s)%s %s (%s)%s))' % (ct, st, a, '/' if op == 'sdiv' else '%', st, b)
        if op in ('udiv', 'urem'):
            if w64: return 'UDIVREM64(%s, %s, %s)' % (a, '/' if op == 'udiv' else '%', b)
            return '((%s)(%s %s %s))' % (ct, a, '/' if op == 'udiv' else '%', b)
        if w64 and op == 'and':
            ba, bb = s.is_big(ins.a), s.is_big(ins.b)
            if (ba is None) != (bb is None):
                # x & M with a 64-bit mask outside the narrow width: for a NON-NEGATIVE x that fits W bits only the low bits of M matter (exact);
                # a negative x would give a value that does not fit: reported by a NARROW property.  At W=64 the plain operation is used.
                big = ba if ba is not None else bb; x = s.v(ins.b if ba is not None else ins.a)
                return 'AND_BIG(%s, %dULL, %dULL)' % (x, big & 0x7FFFFFFF, big & ((1 << 64) - 1))
        if op in ('and', 'or', 'xor'): return '((%s)(%s %s %s))' % (ct, a, {'and': '&', 'or': '|', 'xor': '^'}[op], b)
        if op == 'shl':
            if w64: return 'SHL64(%s, %s)' % (a, b)
            return '((%s)(%s << %s))' % (ct, a, b)
        if op == 'lshr':
            if w64: return 'LSHR64(%s, %s)' % (a, b)
            return '((%s)(%s >> %s))' % (ct, a, b)
        if op == 'ashr':
            if w64: return 'ASHR64(%s, %s)' % (a, b)
            return '((%s)((%s)%s >> %s))' % (ct, st, a, b)
        raise ValueError(op)

    def is_big(s, x):
        if x.kind != 'int': return None
        t = res(x.ty)
        if not (isinstance(t, IntTy) and t.bits == 64): return None
        val = x.value & ((1 << 64) - 1); sv = val - (1 << 64) if val >= (1 << 63) else val
        return None if -(1 << 31) <= sv < (1 << 31) else sv

    def icmp(s, ins):
        ba, bb = s.is_big(ins.a), s.is_big(ins.b)
        if (ba is None) != (bb is None):
            # x compared with a 64-bit constant outside the narrow range: under the narrow invariant (x fits W bits, checked by the NARROW properties)
            # the outcome depends only on the sign of x (unsigned predicates) or is constant (signed predicates, eq, ne).  At W=64 the plain comparison is used.
            swap = ba is not None; big = ba if swap else bb; x = s.v(ins.b if swap else ins.a); p = ins.pred
            if swap: p = {'ult': 'ugt', 'ule': 'uge', 'ugt': 'ult', 'uge': 'ule', 'slt': 'sgt', 'sle': 'sge', 'sgt': 'slt', 'sge': 'sle'}.get(p, p)
            if p == 'eq': nar = '0'
            elif p == 'ne': nar = '1'
            elif p in ('slt', 'sle'): nar = '1' if big > 0 else '0'
            elif p in ('sgt', 'sge'): nar = '0' if big > 0 else '1'
            elif p in ('ult', 'ule'): nar = '((s64)%s >= 0)' % x
            else: nar = '((s64)%s < 0)' % x
            cop = {'eq': '==', 'ne': '!=', 'ult': '<', 'ule': '<=', 'ugt': '>', 'uge': '>=', 'slt': '<', 'sle': '<=', 'sgt': '>', 'sge': '>='}[p]
            cast = '(s64)' if p[0] == 's' else '(u64)'
            return '((u1)ICMP_BIG(%s, (%s%s %s %s%dULL)))' % (nar, cast, x, cop, cast, big & ((1 << 64) - 1))
        t = res(ins.ty); a = s.v(ins.a); b = s.v(ins.b); p = ins.pred
        cop = {'eq': '==', 'ne': '!=', 'ult': '<', 'ule': '<=', 'ugt': '>', 'uge': '>=', 'slt': '<', 'sle': '<=', 'sgt': '>', 'sge': '>='}[p]
        if isinstance(t, PtrTy):
            return '((u1)(%s %s %s))' % (a, cop, b)
        if p[0] == 's' and t.bits > 1:
            st = s.sty(t); return '((u1)((%s)%s %s (%s)%s))' % (st, a, cop, st, b)
        return '((u1)(%s %s %s))' % (a, cop, b)

    def emit_call(s, o, f, b, ins, goto, retdummy):
        n0 = len(o)
        s.emit_call_(o, f, b, ins, goto, retdummy)
        if ins.op == 'invoke' and not any('goto ' in l for l in o[n0:] if l.lstrip().startswith('if (eh_pending)')):
            # an invoke of something modelled inline (intrinsic, vf_*, runtime call that cannot throw): continue at the normal destination
            o.append('  ' + goto(b.name, ins.ok))

    def emit_call_(s, o, f, b, ins, goto, retdummy):
        cal = ins.callee
        d = cid(ins.dst) if ins.dst and not isinstance(res(ins.rty), VoidTy) else None
        name = cal.name if cal.kind == 'global' else None
        args = [a for a in ins.args if a is not None]
        av = [s.v(a) for a in args]
        after = None
        if ins.op == 'invoke':
            after = '  if (eh_pending) %s else %s' % (goto(b.name, ins.uw), goto(b.name, ins.ok))
        def finish(may_throw=True):
            if ins.op == 'invoke': o.append(after)
            elif may_throw: o.append('  if (eh_pending) return%s;' % retdummy)
        if name is None:
            # indirect call through a function pointer: cast to the call-site signature
            rt = s.cty(ins.rty)
            fpt = '%s(*)(%s)' % (rt, ', '.join(s.cty(a.ty) for a in args) or 'void')
            o.append('  %s((%s)%s)(%s);' % ((d + ' = ') if d else '', fpt, s.v(cal), ', '.join(av)))
            finish(True); return
        n = name[1:]
        if n in LIBC:
            o.append('  %s%s(%s);' % ((d + ' = ') if d else '', LIBC[n], ', '.join(av))); return
        # ---- intrinsics
        if n.startswith('llvm.lifetime') or n.startswith('llvm.experimental.noalias') or n.startswith('llvm.dbg') or n.startswith('llvm.invariant'):
            return
        if n.startswith('llvm.assume'):
            return  # deliberately not assumed: assumptions derived from UB are not trusted
        if n.startswith('llvm.memcpy') or n.startswith('llvm.memmove'):
            o.append('  %s(%s, %s, (u64)%s);' % ('rt_memmove' if args[2].kind == 'int' else 'rt_memmove_v', av[0], av[1], av[2])); return
        if n.startswith('llvm.memset'):
            o.append('  rt_memset(%s, %s, (u64)%s);' % (av[0], av[1], av[2])); return
        m = re.match(r'llvm\.(smax|smin|umax|umin)\.i(\d+)', n)
        if m:
            t = IntTy(int(m.group(2))); st = s.sty(t) if m.group(1)[0] == 's' else s.cty(t)
            cmpop = '>' if m.group(1).endswith('max') else '<'
            o.append('  %s = ((%s)%s %s (%s)%s) ? %s : %s;' % (d, st, av[0], cmpop, st, av[1], av[0], av[1])); return
        m = re.match(r'llvm\.abs\.i(\d+)', n)
        if m:
            st = s.sty(IntTy(int(m.group(1)))); o.append('  %s = ((%s)%s < 0) ? (%s)(-(%s)%s) : %s;' % (d, st, av[0], s.cty(IntTy(int(m.group(1)))), st, av[0], av[0])); return
        m = re.match(r'llvm\.(u|s)(mul|add|sub)\.with\.overflow\.i(\d+)', n)
        if m:
            bits = int(m.group(3)); ct = s.cty(IntTy(bits)); sg = m.group(1); opn = m.group(2)
            cop = {'mul': '*', 'add': '+', 'sub': '-'}[opn]
            wt = ('u%d' if sg == 'u' else 's%d') % (bits * 2); nt = ('u%d' if sg == 'u' else 's%d') % bits
            if bits == 64 and sg == 'u':
                o.append('  { u1 ov_; u64 r_ = UOVF64(%s, %s, %s, &ov_); ST64(%s.b, r_); *(u1*)(%s.b + 8) = ov_; }' % (av[0], cop, av[1], d, d)); return
            if bits == 64:
                o.append('  { u1 ov_; u64 r_ = SOVF64(%s, %s, %s, &ov_); ST64(%s.b, r_); *(u1*)(%s.b + 8) = ov_; }' % (av[0], cop, av[1], d, d)); return
            o.append('  { %s w_ = (%s)(%s)%s %s (%s)(%s)%s; *(%s*)(%s.b) = (%s)w_; *(u1*)(%s.b + %d) = (u1)(w_ != (%s)(%s)w_); }' % (wt, wt, nt, av[0], cop, wt, nt, av[1], ct, d, ct, d, bits // 8, wt, nt)); return
        m = re.match(r'llvm\.usub\.sat\.i(\d+)', n)
        if m:   # max(a - b, 0) on unsigned operands (exact in narrow mode for the non-negative values that occur as sizes; a NARROW property guards the rest)
            ct = s.cty(IntTy(int(m.group(1))))
            if int(m.group(1)) == 64: o.append('  __CPROVER_assert((s64)%s >= 0 && (s64)%s >= 0, "NARROW usub.sat operands are non-negative");' % (av[0], av[1]))
            o.append('  %s = ((%s)%s > (%s)%s) ? (%s)(%s - %s) : (%s)0;' % (d, ct, av[0], ct, av[1], ct, av[0], av[1], ct)); return
        if n.startswith('llvm.is.constant'):
            o.append('  %s = (u1)0;' % d); return
        if n.startswith('llvm.stacksave'):
            o.append('  %s = (ptr)0;' % d); return
        if n.startswith('llvm.stackrestore'):
            return
        m = re.match(r'llvm\.(fabs|fmuladd)\.f64', n)
        if m:
            if m.group(1) == 'fabs': o.append('  %s = (%s < 0.0) ? -%s : %s;' % (d, av[0], av[0], av[0]))
            else: o.append('  %s = %s * %s + %s;' % (d, av[0], av[1], av[2]))
            return
        m = re.match(r'llvm\.(ctlz|cttz)\.i(\d+)', n)
        if m:
            o.append('  %s = (%s)rt_%s(%s, %s);' % (d, s.cty(IntTy(int(m.group(2)))), m.group(1), av[0], m.group(2))); return
        if n.startswith('llvm.expect'):
            o.append('  %s = %s;' % (d, av[0])); return
        if n.startswith('llvm.trap'):
            o.append('  __CPROVER_assert(0, "llvm.trap reached"); __CPROVER_assume(0);'); return
        if n.startswith('llvm.eh.typeid.for'):
            o.append('  %s = (u32)eh_typeid(%s);' % (d, av[0])); return
        if n.startswith('llvm.'):
            raise ValueError('unsupported intrinsic %s' % n)
        # ---- verification intrinsics used by wrapper TUs
        if n == 'vf_assume': o.append('  __CPROVER_assume(%s);' % av[0]); return
        if n == 'vf_assert':
            msg = s.const_cstr(args[1])
            if msg is None: raise ValueError('vf_assert with a non-constant message in %s (call sites were merged by the optimiser)' % f.name)
            msg = msg.replace('\\', '\\\\').replace('"', '\\"')
            o.append('  __CPROVER_assert(%s, "VF %s");' % (av[0], msg)); return
        if n == 'vf_reach':
            msg = s.const_cstr(args[0])
            if msg is None: raise ValueError('vf_reach with a non-constant tag in %s' % f.name)
            o.append('  rt_reach("REACH %s");' % msg); return
        if n == 'vf_within':
            o.append('  %s = rt_within(%s, %s, %s);' % (d, av[0], av[1], av[2])); return
        if n == 'vf_nondet_long':
            o.append('  { u64 nd_ = nondet_w(); RT_LOG_IN((s64)nd_); %s nd_; }' % ((d + ' =') if d else '(void)')); return
        if n == 'vf_nondet_int':
            o.append('  { u32 nd_ = nondet_u32(); RT_LOG_IN((s32)nd_); %s nd_; }' % ((d + ' =') if d else '(void)')); return
        # ---- assertion failure: one named CBMC property per call site
        if n == '__assert_fail':
            msg = s.const_cstr(args[0]) or '?'; fil = s.const_cstr(args[1]) or '?'
            line = args[2].value if args[2].kind == 'int' else 0
            tag = 'LIBASSERT' if 'boost/multi' in fil else 'ASSERT'
            o.append('  rt_assert_fail("%s %s:%d: %s");' % (tag, fil.split('include/')[-1], line, msg.replace('\\', '\\\\').replace('"', '\\"')))
            o.append('  if (eh_pending) return%s;' % retdummy)
            return
        # ---- C++ runtime
        if n == '__cxa_allocate_exception': o.append('  %s = eh_alloc(%s);' % (d, av[0])); return
        if n == '__cxa_free_exception': return
        if n == '__cxa_throw': o.append('  eh_throw(%s, %s);' % (av[0], av[1])); finish(); return
        if n == '__cxa_rethrow': o.append('  eh_rethrow();'); finish(); return
        if n == '__cxa_begin_catch': o.append('  %s eh_begin_catch(%s);' % ((d + ' =') if d else '', av[0])); return
        if n == '__cxa_end_catch': o.append('  eh_end_catch();'); finish(False) if ins.op == 'invoke' else None; return
        if n in ('__clang_call_terminate', '_ZSt9terminatev'):
            o.append('  rt_terminate();'); return
        if re.match(r'_ZSt\d+__throw_', n):   # libstdc++ helpers that throw a std:: exception: modelled as a throw of a type matched only by catch(...)
            o.append('  eh_throw(eh_alloc(8), (ptr)0);'); finish(); return
        if n in ('_Znwm', '_Znam', '_ZnwmRKSt9nothrow_t', '_ZnamRKSt9nothrow_t'): o.append('  %s = rt_new(%s);' % (d, av[0])); finish(); return
        if n in ('_ZdlPv', '_ZdaPv', '_ZdlPvm', '_ZdaPvm', '_ZdlPvRKSt9nothrow_t', '_ZdaPvRKSt9nothrow_t'): o.append('  rt_delete(%s);' % av[0]); return
        # ---- ordinary call
        call = '%s(%s)' % (s.fname(name), ', '.join(av))
        callee = s.mod.fns.get(name)
        if callee is None: raise ValueError('call to unknown %s' % name)
        o.append('  %s%s;' % ((d + ' = ') if d else '', call))
        finish(True)

    def const_cstr(s, v):
        try:
            while v.kind in ('ccast',): v = v.x
            if v.kind == 'cgep': v = v.base
            if v.kind == 'global':
                g = s.mod.globals[v.name]
                if g['init'] is not None and g['init'].kind == 'cstr':
                    t = g['init'].text[2:-1]
                    t = re.sub(r'\\([0-9A-Fa-f]{2})', lambda m: chr(int(m.group(1), 16)), t)
                    return t.rstrip('\0')
        except Exception:
            pass
        return None

    def emit_landingpad(s, o, ins, retdummy):
        d = cid(ins.dst)
        # selector: first matching clause
        conds = []
        for kind, cv in ins.clauses:
            if kind != 'catch': raise ValueError('filter clause')
            tv = s.v(cv)
            conds.append(tv)
        o.append('  { ptr lp_obj = eh_obj; int lp_sel = 0; int lp_matched = 0;')
        for tv in conds:
            o.append('    if (!lp_matched && (%s == (ptr)0 || %s == eh_ti)) { lp_sel = eh_typeid(%s); lp_matched = 1; }' % (tv, tv, tv))
        if not ins.cleanup:
            o.append('    if (!lp_matched) return%s; /* frame does not handle this exception: keep unwinding */' % retdummy)
        o.append('    eh_pending = 0; *(ptr*)(%s.b) = lp_obj; *(u32*)(%s.b + 8) = (u32)lp_sel; }' % (d, d))

    # ---- globals
    def memty(s, t):
        """C type with exactly the x86-64 layout of LLVM type t, for objects in memory (allocas, globals).  Memory always holds
        full-width values (i64 = 8 bytes even in narrow mode).  Typed objects let cbmc resolve constant-offset accesses to members
        (constant propagation of pointers and integers stored in memory) instead of byte-extracting from char arrays."""
        t = res(t)
        if isinstance(t, IntTy):
            if t.bits <= 8: return 'u8', ''
            if t.bits <= 16: return 'u16', ''
            if t.bits <= 32: return 'u32', ''
            if t.bits <= 64: return 'unsigned long long', ''
            return 'u128', ''
        if isinstance(t, FloatTy): return {'float': 'float', 'double': 'double'}.get(t.name, 'long double'), ''
        if isinstance(t, PtrTy): return 'ptr', ''
        if isinstance(t, ArrTy):
            b, suf = s.memty(t.el)
            return b, '[%d]%s' % (max(t.n, 0), suf) if t.n > 0 else None
        if isinstance(t, StructTy):
            if t.opaque or not t.fields: return None, None
            key = 'M' + repr(t) + '#%d#%s' % (sizeof(t), ','.join(map(str, struct_layout(t)[0])))
            if key not in s.aggs:
                offs, total = struct_layout(t)
                parts = []; cur = 0
                for i, (f, o_) in enumerate(zip(t.fields, offs)):
                    if o_ > cur: parts.append('char pad%d_[%d];' % (i, o_ - cur))
                    fsz = sizeof(f)
                    if fsz == 0: cur = o_; continue
                    b, suf = s.memty(f)
                    if b is None: parts.append('char f%d[%d];' % (i, fsz))
                    else: parts.append('%s f%d%s;' % (b, i, suf))
                    cur = o_ + fsz
                if total > cur: parts.append('char padend_[%d];' % (total - cur))
                name = 'mt%d' % len(s.aggs)
                s.aggs[key] = name
                s.aggdefs = getattr(s, 'aggdefs', [])
                s.aggdefs.append('typedef struct __attribute__((packed)) { %s } %s;' % (' '.join(parts), name))
            return s.aggs[key], ''
        return None, None

    def obj_decl(s, t, name, align, count=1):
        sz = max(1, sizeof(t) * count)
        b, suf = (None, None)
        try:
            if count == 1 and not s.untyped: b, suf = s.memty(t)
        except Exception:
            b = None
        if b is None or suf is None: return 'char %s[%d] __attribute__((aligned(%d)))' % (name, sz, align)
        return '%s %s%s __attribute__((aligned(%d)))' % (b, name, suf, align)

    def emit_global_decl(s, g):
        n = s.gname(g['name']); sz = max(1, sizeof(g['ty'])); al = g['align'] or alignof(g['ty'])
        if (g['external'] or g['init'] is None) and g['name'].startswith(('@_ZTI', '@_ZTS')):
            return 'char %s[16];   /* external typeinfo: only its address is used (exception matching) */' % n
        if g['external'] or g['init'] is None:
            return 'extern char %s[%d];' % (n, sz)
        if g['init'].kind == 'cstr':
            txt = g['init'].text[2:-1]; bs = []; i = 0
            while i < len(txt):
                if txt[i] == '\\': bs.append(int(txt[i+1:i+3], 16)); i += 3
                else: bs.append(ord(txt[i])); i += 1
            return 'char %s[%d] = {%s};' % (n, sz, ','.join(map(str, bs)))
        return s.obj_decl(g['ty'], n, al) + ';'

    def init_stmts(s, base, off, v):
        """statements initialising memory at base+off with constant v"""
        t = res(v.ty); out = []
        if v.kind in ('zero', 'undef'): return out  # globals are zero-initialised
        if v.kind == 'cstr':
            txt = v.text[2:-1]; bs = []
            i = 0
            while i < len(txt):
                if txt[i] == '\\': bs.append(int(txt[i+1:i+3], 16)); i += 3
                else: bs.append(ord(txt[i])); i += 1
            for k, b in enumerate(bs):
                if b: out.append('%s[%d] = %d;' % (base, off + k, b))
            return out
        if v.kind == 'agg':
            if isinstance(t, StructTy):
                offs = struct_layout(t)[0]
                for f, o_ in zip(v.elems, offs): out += s.init_stmts(base, off + o_, f)
            else:
                esz = sizeof(t.el)
                for k, e in enumerate(v.elems): out += s.init_stmts(base, off + k * esz, e)
            return out
        if s.is64(t): out.append('ST64(%s + %d, %s);' % (base, off, s.v(v)))
        else: out.append('*(%s*)(%s + %d) = %s;' % (s.cty(t), base, off, s.v(v)))
        return out

    def run(s):
        mod = s.mod
        body = []
        fns = [mod.fns[n] for n in mod.order]
        used_ext = s.used_externals()
        protos = []; missing = []
        for f in fns:
            n = f.name[1:]
            if n.startswith('llvm.') or n in CXXRT or n in LIBC or re.match(r'_ZSt\d+__throw_', n):
                if f.defined and n == '__clang_call_terminate': f.defined = False
                continue
            params = ', '.join(s.cty(p['ty']) for p in f.params) or 'void'
            protos.append('%s %s(%s);' % (s.cty(f.ret), s.fname(f.name), params))
            if not f.defined and not getattr(f, 'stubbed', False) and f.name in used_ext: missing.append(n)
        if missing:
            raise ValueError('external functions without a model (define them in the wrapper TU or pass --stub-fn): ' + ' '.join(missing))
        gl = [s.emit_global_decl(g) for g in mod.globals.values() if not g['name'].startswith('@_ZTV')]
        gl += ['char %s[64];' % s.gname(g['name']) for g in mod.globals.values() if g['name'].startswith('@_ZTV')]
        inits = []
        for g in mod.globals.values():
            if g['init'] is not None and g['init'].kind != 'cstr':
                try: inits += s.init_stmts('((ptr)&%s)' % s.gname(g['name']), 0, g['init'])
                except Exception as e: raise ValueError('initialiser of %s: %s' % (g['name'], e))
        for f in fns:
            if f.defined: body.append(s.emit_fn(f))
            elif getattr(f, 'stubbed', False):
                params = ', '.join('%s a%d' % (s.cty(p['ty']), i) for i, p in enumerate(f.params)) or 'void'
                rt = s.cty(f.ret)
                body.append('%s %s(%s) { /* stubbed by --stub-fn */ %s }' % (rt, s.fname(f.name), params, '' if rt == 'void' else 'return (%s){0};' % rt if rt.startswith('agg') else 'return (%s)0;' % rt))
        tis = [g['name'] for g in mod.globals.values() if g['name'].startswith('@_ZTI')]
        tid = ['int eh_typeid(ptr ti) {'] + ['  if (ti == (ptr)&%s) return %d;' % (s.gname(n), i + 2) for i, n in enumerate(tis)] + ['  return 1; /* catch-all / unknown */', '}']
        entries = [f for f in fns if f.defined and f.name[1:].startswith('vfh_')]
        mains = []
        for f in entries:
            c = s.fname(f.name)
            mains.append('void main_%s(void) { ll2c_init_globals(); %s(); __CPROVER_assert(!eh_pending, "VF no exception escapes the harness"); }' % (c, c))
        mains.append('#ifndef __CPROVER__')
        mains.append('struct ll2c_entry { const char *name; void (*fn)(void); } ll2c_entries[] = {' + ' '.join('{"%s", main_%s},' % (s.fname(f.name)[4:], s.fname(f.name)) for f in entries) + ' {0, 0}};')
        mains.append('#endif')
        out = ['/* generated by ll2c.py -- do not edit */', '#define LL2C_RT_IMPL', '#include "ll2c_rt.h"'] + getattr(s, 'aggdefs', []) + gl + protos + tid
        out += ['void ll2c_init_globals(void) {'] + ['  ' + x for x in inits] + ['}'] + body + mains
        return '\n'.join(out) + '\n'

    def used_externals(s):
        """names of declared-only functions that are referenced from a defined function"""
        used = set()
        def scan(v):
            if v is None: return
            if getattr(v, 'kind', None) == 'global' and v.name in s.mod.fns: used.add(v.name)
            for k in ('base', 'x', 'a', 'b', 'c'):
                if hasattr(v, k) and isinstance(getattr(v, k), Val): scan(getattr(v, k))
            for k in ('idx', 'elems'):
                if hasattr(v, k):
                    for e in getattr(v, k):
                        if isinstance(e, Val): scan(e)
        for f in s.mod.fns.values():
            if not f.defined: continue
            for b in f.blocks:
                for ins in b.insts:
                    for k, x in ins.__dict__.items():
                        if isinstance(x, Val): scan(x)
                        elif isinstance(x, list):
                            for e in x:
                                if isinstance(e, Val): scan(e)
                                elif isinstance(e, tuple):
                                    for ee in e:
                                        if isinstance(ee, Val): scan(ee)
        for g in s.mod.globals.values():
            if g['init'] is not None: scan(g['init'])
        return used

def main():
    ap = argparse.ArgumentParser()
    ap.add_argument('ll'); ap.add_argument('-o', default='-')
    ap.add_argument('--stub-fn', action='append', default=[], help='regex: defined functions to treat as body-less externals (formatting, logging)')
    ap.add_argument('--meta', default=None, help='write JSON: per entry the defined functions reachable from it, library assertion sites, stubs')
    a = ap.parse_args()
    mod = parse_module(open(a.ll).read())
    for f in mod.fns.values():
        n = f.name[1:]
        if n.startswith('llvm.') or n in CXXRT or n in LIBC or re.match(r'_ZSt\d+__throw_', n): continue
        if any(re.search(r, f.name) for r in a.stub_fn):
            f.defined = False; f.blocks = []; f.stubbed = True; sys.stderr.write('ll2c: stubbed %s\n' % f.name)
    em = Emitter(mod)
    txt = em.run()
    if a.meta:
        import json
        # call graph over defined functions
        cg = {}
        for f in mod.fns.values():
            if not f.defined: continue
            refs = set(); asserts = set()
            for b in f.blocks:
                for ins in b.insts:
                    for k, x in ins.__dict__.items():
                        xs = x if isinstance(x, list) else [x]
                        for e in xs:
                            es = e if isinstance(e, tuple) else (e,)
                            for ee in es:
                                if isinstance(ee, Val):
                                    st = [ee]
                                    while st:
                                        v = st.pop()
                                        if v.kind == 'global' and v.name in mod.fns: refs.add(v.name)
                                        for kk in ('base', 'x', 'a', 'b'):
                                            if isinstance(getattr(v, kk, None), Val): st.append(getattr(v, kk))
                    if ins.op in ('call', 'invoke') and ins.callee.kind == 'global' and ins.callee.name == '@__assert_fail':
                        args = [x for x in ins.args if x is not None]
                        asserts.add('%s:%s: %s' % ((em.const_cstr(args[1]) or '?').split('include/')[-1], args[2].value if args[2].kind == 'int' else 0, em.const_cstr(args[0]) or '?'))
            cg[f.name] = (refs, asserts)
        meta = {'entries': {}, 'stubbed': sorted(f.name[1:] for f in mod.fns.values() if getattr(f, 'stubbed', False))}
        for f in mod.fns.values():
            if f.defined and f.name[1:].startswith('vfh_'):
                seen = set(); st = [f.name]
                while st:
                    n = st.pop()
                    if n in seen or n not in cg: continue
                    seen.add(n); st += list(cg[n][0])
                asr = set()
                for n in seen: asr |= cg[n][1]
                meta['entries'][f.name[5:]] = {'functions': sorted(n[1:] for n in seen), 'libassert_sites': sorted(asr)}
        open(a.meta, 'w').write(json.dumps(meta))
    if a.o == '-': sys.stdout.write(txt)
    else: open(a.o, 'w').write(txt)

if __name__ == '__main__':
    main()
