// vf_native.cpp -- native implementation of the vf_* intrinsics for the g++ build of a wrapper TU (replay + translator validation)
#include <cstdio>
#include <cstdlib>
#include <cstring>
#include <exception>
#include <string>
extern "C" {
void vfd_event(int kind, const char* msg, int val);
long long vfd_next_value(void);
void vfd_stop(int kind, const char* msg);
typedef void (*entry_fn)(void);
struct reg_t { const char* name; entry_fn fn; };
static reg_t* g_reg; static int g_nreg;
void vf_register(const char* name, entry_fn fn) { g_reg = static_cast<reg_t*>(realloc(g_reg, sizeof(reg_t)*(g_nreg + 1))); g_reg[g_nreg++] = reg_t{name, fn}; }
static entry_fn g_cur;
static void guarded() { try { g_cur(); } catch(...) { vfd_event('A', "VF no exception escapes the harness", 0); return; } vfd_event('A', "VF no exception escapes the harness", 1); }
entry_fn vfd_lookup(const char* name) { for(int i = 0; i < g_nreg; ++i) if(!strcmp(g_reg[i].name, name)) { g_cur = g_reg[i].fn; std::set_terminate([]{ vfd_stop('T', "std::terminate reached"); }); return &guarded; } return nullptr; }
void vfd_list(void) { for(int i = 0; i < g_nreg; ++i) printf("%s\n", g_reg[i].name); }
long vf_nondet_long() { return static_cast<long>(vfd_next_value()); }
int  vf_nondet_int() { return static_cast<int>(vfd_next_value()); }
void vf_assume(bool c) { if(!c) vfd_stop('X', "assume"); }
void vf_assert(bool c, const char* m) { std::string s = std::string("VF ") + m; vfd_event('A', s.c_str(), c ? 1 : 0); }
bool vf_within(const void* p, const void* base, long nbytes) { auto a = reinterpret_cast<unsigned long>(p), b = reinterpret_cast<unsigned long>(base); return a >= b && a < b + static_cast<unsigned long>(nbytes); }
void vf_reach(const char* m) { std::string s = std::string("REACH ") + m; vfd_event('R', s.c_str(), 1); }
// library assertions (assert() -> __assert_fail) become an 'L' event with the same text the translator gives the cbmc property
void __assert_fail(const char* expr, const char* file, unsigned line, const char*) noexcept {
  const char* f = strstr(file, "include/"); f = f ? f + 8 : file;
  std::string s = std::string(strstr(file, "boost/multi") ? "LIBASSERT " : "ASSERT ") + f + ":" + std::to_string(line) + ": " + expr;
  vfd_stop('L', s.c_str());
}
}
