#!/bin/sh
# rebuild the repository's own test-suite from the current working tree (guard off: no -DBOOST_MULTI_VERIF) and run it
set -e
if [ ! -f /repo/_build/CMakeCache.txt ]; then   # same configuration as the pinned baseline build
  cmake -G Ninja -S /repo -B /repo/_build -DCMAKE_BUILD_TYPE=RelWithDebInfo -DCMAKE_CXX_FLAGS=-Wno-error >/dev/null
fi
cmake --build /repo/_build -j16 >/dev/null
OMPI_ALLOW_RUN_AS_ROOT=1 OMPI_ALLOW_RUN_AS_ROOT_CONFIRM=1 ctest --test-dir /repo/_build -j8 --timeout 900 "$@"
