// C13 (call-contract level): the argument list the BLAS adaptor passes to the Fortran routine denotes, under the BLAS specification,
// exactly the user's logical operands.  dgemm_/dgemv_/ddot_/... are defined HERE: they only record their arguments.
// Operands are views over double storages with symbolic sizes and one of the documented accepted layouts (row- or column-major
// sub-block with symbolic padding, unit or non-unit vector stride).  Oracle = address map at symbolic index tuples (DESIGN C13).
// A rejection (exception, or library assertion) is an allowed outcome; a silent wrong call is not.
#include "vf.h"
#include <boost/multi/adaptors/blas/gemm.hpp>
#include <boost/multi/adaptors/blas/gemv.hpp>
#include <boost/multi/adaptors/blas/dot.hpp>
#include <boost/multi/adaptors/blas/axpy.hpp>
#include <boost/multi/adaptors/blas/scal.hpp>
#include <boost/multi/adaptors/blas/copy.hpp>
#include <boost/multi/adaptors/blas/swap.hpp>
#include <boost/multi/adaptors/blas/nrm2.hpp>
#include <boost/multi/adaptors/blas/asum.hpp>
#include <boost/multi/adaptors/blas/iamax.hpp>
#include <boost/multi/adaptors/blas/syrk.hpp>
#include <boost/multi/adaptors/blas/trsm.hpp>
#include <boost/multi/adaptors/blas/herk.hpp>
#include <complex>
#include <boost/multi/array_ref.hpp>
namespace multi = boost::multi;
#ifndef NB
#define NB 3
#endif
#ifndef PAD
#define PAD 2
#endif
#define MSZ 64
using INT = long;   // MULTI_BLAS_INT is the pointer width in this build
extern "C" {
double g_ma[MSZ]; double g_mb[MSZ]; double g_mc[MSZ];
long r_calls; char r_ta, r_tb; long r_m, r_n, r_k, r_lda, r_ldb, r_ldc, r_incx, r_incy; double const* r_a; double const* r_b; double* r_c; double r_alpha, r_beta;
int r_which; char r_side, r_diag;
std::complex<double> g_za[MSZ]; std::complex<double> g_zc[MSZ]; std::complex<double> const* r_za; std::complex<double>* r_zc; std::complex<double> g_zb[MSZ]; std::complex<double> const* r_zb; double r_ai, r_bi;
void dgemm_(char const& ta, char const& tb, INT const& m, INT const& n, INT const& k, double const& alpha, double const* A, INT const& lda, double const* B, INT const& ldb, double const& beta, double const* C, INT const& ldc) {
  ++r_calls; r_which = 1; r_ta = ta; r_tb = tb; r_m = m; r_n = n; r_k = k; r_lda = lda; r_ldb = ldb; r_ldc = ldc; r_a = A; r_b = B; r_c = const_cast<double*>(C); r_alpha = alpha; r_beta = beta; }
void dgemv_(char const& t, INT const& m, INT const& n, double const& alpha, double const* A, INT const& lda, double const* X, INT const& incx, double const& beta, double* Y, INT const& incy) {
  ++r_calls; r_which = 2; r_ta = t; r_m = m; r_n = n; r_lda = lda; r_a = A; r_b = X; r_incx = incx; r_c = Y; r_incy = incy; r_alpha = alpha; r_beta = beta; }
double ddot_(INT const& n, double const* x, INT const& incx, double const* y, INT const& incy) { ++r_calls; r_which = 3; r_n = n; r_a = x; r_incx = incx; r_b = y; r_incy = incy; return 42.0; }
void daxpy_(INT const& n, double const* a, double const* x, INT const& incx, double* y, INT const& incy) { ++r_calls; r_which = 4; r_n = n; r_alpha = *a; r_a = x; r_incx = incx; r_c = y; r_incy = incy; }
void dscal_(INT const& n, double const& a, double* x, INT const& incx) { ++r_calls; r_which = 5; r_n = n; r_alpha = a; r_c = x; r_incx = incx; }
void dcopy_(INT const& n, double const* x, INT const& incx, double* y, INT const& incy) { ++r_calls; r_which = 6; r_n = n; r_a = x; r_incx = incx; r_c = y; r_incy = incy; }
void dswap_(INT const& n, double* x, INT const& incx, double* y, INT const& incy) { ++r_calls; r_which = 7; r_n = n; r_a = x; r_incx = incx; r_c = y; r_incy = incy; }
double dnrm2_(INT const& n, double const* x, INT const& incx) { ++r_calls; r_which = 8; r_n = n; r_a = x; r_incx = incx; return 5.0; }
double dasum_(INT const& n, double const* x, INT const& incx) { ++r_calls; r_which = 9; r_n = n; r_a = x; r_incx = incx; return 6.0; }
void dsyrk_(char const& uplo, char const& t, INT const& n, INT const& k, double const& alpha, double const* A, INT const& lda, double const& beta, double* C, INT const& ldc) {
  ++r_calls; r_which = 11; r_ta = uplo; r_tb = t; r_n = n; r_k = k; r_a = A; r_lda = lda; r_c = C; r_ldc = ldc; r_alpha = alpha; r_beta = beta; }
void dtrsm_(char const& side, char const& uplo, char const& t, char const& diag, INT const& m, INT const& n, double const& alpha, double const* A, INT const& lda, double const* B, INT const& ldb) {
  ++r_calls; r_which = 12; r_side = side; r_ta = uplo; r_tb = t; r_diag = diag; r_m = m; r_n = n; r_alpha = alpha; r_a = A; r_lda = lda; r_c = const_cast<double*>(B); r_ldb = ldb; }
void zherk_(char const& uplo, char const& t, INT const& n, INT const& k, double const& alpha, std::complex<double> const* A, INT const& lda, double const& beta, std::complex<double>* C, INT const& ldc) {
  ++r_calls; r_which = 13; r_ta = uplo; r_tb = t; r_n = n; r_k = k; r_za = A; r_lda = lda; r_zc = C; r_ldc = ldc; r_alpha = alpha; r_beta = beta; }
void zgemm_(char const& ta, char const& tb, INT const& m, INT const& n, INT const& k, std::complex<double> const& alpha, std::complex<double> const* A, INT const& lda, std::complex<double> const* B, INT const& ldb, std::complex<double> const& beta, std::complex<double> const* C, INT const& ldc) {
  ++r_calls; r_which = 14; r_ta = ta; r_tb = tb; r_m = m; r_n = n; r_k = k; r_lda = lda; r_ldb = ldb; r_ldc = ldc; r_za = A; r_zb = B; r_zc = const_cast<std::complex<double>*>(C); r_alpha = alpha.real(); r_beta = beta.real(); r_ai = alpha.imag(); r_bi = beta.imag(); }
void zgemv_(char const& t, INT const& m, INT const& n, std::complex<double> const& alpha, std::complex<double> const* A, INT const& lda, std::complex<double> const* X, INT const& incx, std::complex<double> const& beta, std::complex<double>* Y, INT const& incy) {
  ++r_calls; r_which = 15; r_ta = t; r_m = m; r_n = n; r_lda = lda; r_za = A; r_zb = X; r_incx = incx; r_zc = Y; r_incy = incy; r_alpha = alpha.real(); r_ai = alpha.imag(); r_beta = beta.real(); r_bi = beta.imag(); }
Complex_double zdotc_(INT const& n, std::complex<double> const* x, INT const& incx, std::complex<double> const* y, INT const& incy) {
  ++r_calls; r_which = 16; r_n = n; r_za = x; r_incx = incx; r_zb = y; r_incy = incy; Complex_double r; r.real = 7.0; r.imag = 8.0; return r; }
void ztrsm_(char const& side, char const& uplo, char const& t, char const& diag, INT const& m, INT const& n, std::complex<double> const& alpha, std::complex<double> const* A, INT const& lda, std::complex<double> const* B, INT const& ldb) {
  ++r_calls; r_which = 17; r_side = side; r_ta = uplo; r_tb = t; r_diag = diag; r_m = m; r_n = n; r_alpha = alpha.real(); r_ai = alpha.imag(); r_za = A; r_lda = lda; r_zc = const_cast<std::complex<double>*>(B); r_ldb = ldb; }
void zaxpy_(INT const& n, std::complex<double> const* a, std::complex<double> const* x, INT const& incx, std::complex<double>* y, INT const& incy) { ++r_calls; r_which = 24; r_n = n; r_alpha = a->real(); r_ai = a->imag(); r_za = x; r_incx = incx; r_zc = y; r_incy = incy; }
void zscal_(INT const& n, std::complex<double> const& a, std::complex<double>* x, INT const& incx) { ++r_calls; r_which = 25; r_n = n; r_alpha = a.real(); r_ai = a.imag(); r_zc = x; r_incx = incx; }
void zcopy_(INT const& n, std::complex<double> const* x, INT const& incx, std::complex<double>* y, INT const& incy) { ++r_calls; r_which = 26; r_n = n; r_za = x; r_incx = incx; r_zc = y; r_incy = incy; }
void zswap_(INT const& n, std::complex<double>* x, INT const& incx, std::complex<double>* y, INT const& incy) { ++r_calls; r_which = 27; r_n = n; r_za = x; r_incx = incx; r_zc = y; r_incy = incy; }
double dznrm2_(INT const& n, std::complex<double> const* x, INT const& incx) { ++r_calls; r_which = 28; r_n = n; r_za = x; r_incx = incx; return 5.0; }
double dzasum_(INT const& n, std::complex<double> const* x, INT const& incx) { ++r_calls; r_which = 29; r_n = n; r_za = x; r_incx = incx; return 6.0; }
INT izamax_(INT const& n, std::complex<double> const* x, INT const& incx) { ++r_calls; r_which = 30; r_n = n; r_za = x; r_incx = incx; return 2; }
INT idamax_(INT const& n, double const* x, INT const& incx) { ++r_calls; r_which = 10; r_n = n; r_a = x; r_incx = incx; return 2; }   // 1-based position 2
}
static auto mk2(double* p, L s0, L s1, L n0, L n1) {
  multi::layout_t<1> l1(multi::layout_t<0>{}, s1, 0, s1 * n1);
  return multi::subarray<double, 2>(multi::layout_t<2>(l1, s0, 0, s0 * n0), p);
}
static auto mk1(double* p, L s, L n) { return multi::subarray<double, 1>(multi::layout_t<1>(multi::layout_t<0>{}, s, 0, s * n), p); }
// accepted matrix layout: one unit stride, the other >= the extent it spans (+ padding)
static void mat_layout(L rows, L cols, L& s0, L& s1) {
  L rowmajor = vf_range(0, 1); L pad = vf_range(0, PAD);
  if(rowmajor) { s1 = 1; s0 = cols + pad; } else { s0 = 1; s1 = rows + pad; }
}
static L opaddr(char t, L ld, L r, L c) { return t == 'N' ? r + c * ld : c + r * ld; }   // element (r,c) of op(X), column-major with leading dimension ld
static L maxl(L a, L b) { return a > b ? a : b; }

// gemm_l<layout>: no extent equals 1; gemm_unit_l<layout>: at least one of M, N, K is 1 (formerly the known finding C13-gemm-unit-extent, fixed in /repo;
// kept as a separate query: it is the region where leading dimensions and strides decouple).
// LAYOUT = 3 bits (A, B, C): 1 = row-major, 0 = column-major; compile-time so that each of the eight layout branches of gemm_n is one query
static void mat_layout_fixed(int rowmajor, L rows, L cols, L& s0, L& s1) { L pad = vf_range(0, PAD); if(rowmajor) { s1 = 1; s0 = cols + pad; } else { s0 = 1; s1 = rows + pad; } }
static void dgemm_oracle(L M, L N, L K, L as0, L as1, L bs0, L bs1, L cs0, L cs1, L oa, L ob, L oc, double alpha, double beta) {
    vf_assert(r_calls == 1 && r_which == 1, "exactly one dgemm call");
    vf_assert((r_ta == 'N' || r_ta == 'T' || r_ta == 'C') && (r_tb == 'N' || r_tb == 'T' || r_tb == 'C'), "transposition flags are valid");
    vf_assert(r_m >= 0 && r_n >= 0 && r_k == K, "dimensions are valid and k is the contracted dimension");
    vf_assert(r_lda >= (r_ta == 'N' ? maxl(1, r_m) : maxl(1, r_k)), "lda satisfies the BLAS precondition (else xerbla)");
    vf_assert(r_ldb >= (r_tb == 'N' ? maxl(1, r_k) : maxl(1, r_n)), "ldb satisfies the BLAS precondition (else xerbla)");
    vf_assert(r_ldc >= maxl(1, r_m), "ldc satisfies the BLAS precondition (else xerbla)");
    vf_assert(r_alpha == alpha && r_beta == beta, "alpha and beta are the ones the form prescribes");
    // (forall x. T(x)) or (forall y. D(y)) with two independent symbolic index triples
    L i = vf_range(0, NB - 1); L j = vf_range(0, NB - 1); L l = vf_range(0, NB - 1); vf_assume(i < M && j < N && l < K);
    L i2 = vf_range(0, NB - 1); L j2 = vf_range(0, NB - 1); L l2 = vf_range(0, NB - 1); vf_assume(i2 < M && j2 < N && l2 < K);
    bool a_is_B = vf_within(r_a, g_mb, sizeof g_mb), b_is_A = vf_within(r_b, g_ma, sizeof g_ma), a_is_A = vf_within(r_a, g_ma, sizeof g_ma), b_is_B = vf_within(r_b, g_mb, sizeof g_mb);
    bool c_ok = vf_within(r_c, g_mc, sizeof g_mc);
    bool Tf = c_ok && a_is_B && b_is_A && r_m == N && r_n == M     // transposed form: C' = B' A'
      && (r_c - g_mc) + opaddr('N', r_ldc, j, i) == oc + i * cs0 + j * cs1
      && (r_a - g_mb) + opaddr(r_ta, r_lda, j, l) == ob + l * bs0 + j * bs1
      && (r_b - g_ma) + opaddr(r_tb, r_ldb, l, i) == oa + i * as0 + l * as1;
    bool Df = c_ok && a_is_A && b_is_B && r_m == M && r_n == N     // direct form
      && (r_c - g_mc) + opaddr('N', r_ldc, i2, j2) == oc + i2 * cs0 + j2 * cs1
      && (r_a - g_ma) + opaddr(r_ta, r_lda, i2, l2) == oa + i2 * as0 + l2 * as1
      && (r_b - g_mb) + opaddr(r_tb, r_ldb, l2, j2) == ob + l2 * bs0 + j2 * bs1;
    vf_assert(Tf || Df, "the recorded dgemm arguments denote C(i,j), A(i,l), B(l,j) for every index triple (direct or transposed form)");
}
template<bool UnitExtent, int LAYOUT> static void t_gemm() {   // C = alpha*A*B + beta*C, A MxK, B KxN, C MxN
  L M = vf_range(1, NB); L N = vf_range(1, NB); L K = vf_range(1, NB);
  vf_assume(UnitExtent == (M == 1 || N == 1 || K == 1));
  L as0, as1, bs0, bs1, cs0, cs1; mat_layout_fixed((LAYOUT >> 2) & 1, M, K, as0, as1); mat_layout_fixed((LAYOUT >> 1) & 1, K, N, bs0, bs1); mat_layout_fixed(LAYOUT & 1, M, N, cs0, cs1);
  L oa = vf_range(0, 3); L ob = vf_range(0, 3); L oc = vf_range(0, 3);
  auto A = mk2(g_ma + oa, as0, as1, M, K); auto B = mk2(g_mb + ob, bs0, bs1, K, N); auto C = mk2(g_mc + oc, cs0, cs1, M, N);
  bool rejected = false;
  try { multi::blas::gemm(2.0, A, B, 3.0, C); } catch(...) { rejected = true; }
  if(!rejected) dgemm_oracle(M, N, K, as0, as1, bs0, bs1, cs0, cs1, oa, ob, oc, 2.0, 3.0);
}
// lazy-range and operator forms of gemm on views: C = gemm(alpha, A, B) (copy of the range: beta = 0), C += gemm(alpha, A, B) (beta = 1),
// C = f * gemm(alpha, A, B) (alpha scaled), +gemm(...) (decays into a new array: row-major C of exactly M x N elements)
template<int LAYOUT> static void t_gemm_forms() {
  L M = vf_range(1, NB); L N = vf_range(1, NB); L K = vf_range(1, NB);
  L as0, as1, bs0, bs1, cs0, cs1; mat_layout_fixed((LAYOUT >> 2) & 1, M, K, as0, as1); mat_layout_fixed((LAYOUT >> 1) & 1, K, N, bs0, bs1); mat_layout_fixed(LAYOUT & 1, M, N, cs0, cs1);
  L oa = vf_range(0, 3); L ob = vf_range(0, 3); L oc = vf_range(0, 3);
  auto A = mk2(g_ma + oa, as0, as1, M, K); auto B = mk2(g_mb + ob, bs0, bs1, K, N); auto C = mk2(g_mc + oc, cs0, cs1, M, N);
  L form = vf_range(0, 2);
  bool rejected = false; double alpha = 2.0, beta = 0.0;
  try {
    if(form == 0) { C = multi::blas::gemm(2.0, A, B); }
    else if(form == 1) { C += multi::blas::gemm(2.0, A, B); beta = 1.0; }
    else { C = 4.0 * multi::blas::gemm(2.0, A, B); alpha = 8.0; }
  } catch(...) { rejected = true; }
  if(!rejected) dgemm_oracle(M, N, K, as0, as1, bs0, bs1, cs0, cs1, oa, ob, oc, alpha, beta);
}
#define GF(L) VF_HARNESS(gemm_forms_l##L) { t_gemm_forms<L>(); vf_reach("gemm_forms_l" #L); }
GF(0) GF(2) GF(5) GF(7)
#define G(L) VF_HARNESS(gemm_l##L) { t_gemm<false, L>(); vf_reach("gemm_l" #L); } VF_HARNESS(gemm_unit_l##L) { t_gemm<true, L>(); vf_reach("gemm_unit_l" #L); }
G(0) G(1) G(2) G(3) G(4) G(5) G(6) G(7)

VF_HARNESS(gemv) {   // y = alpha*A*x + beta*y, A MxN
  L M = vf_range(1, NB); L N = vf_range(1, NB);
  L as0, as1; mat_layout(M, N, as0, as1);
  L sx = vf_range(1, 3); L sy = vf_range(1, 3); L oa = vf_range(0, 3); L ox = vf_range(0, 3); L oy = vf_range(0, 3);
  auto A = mk2(g_ma + oa, as0, as1, M, N); auto x = mk1(g_mb + ox, sx, N); auto y = mk1(g_mc + oy, sy, M);
  bool rejected = false;
  try { multi::blas::gemv(2.0, A, x, 3.0, y); } catch(...) { rejected = true; }
  if(!rejected) {
    vf_assert(r_calls == 1 && r_which == 2, "exactly one dgemv call");
    vf_assert(r_ta == 'N' || r_ta == 'T', "transposition flag is valid");
    vf_assert(r_lda >= maxl(1, r_m), "lda satisfies the BLAS precondition");
    vf_assert(r_incx == sx && r_incy == sy && r_b == g_mb + ox && r_c == g_mc + oy, "vector arguments denote x and y");
    vf_assert(r_alpha == 2.0 && r_beta == 3.0, "alpha and beta are passed unchanged");
    L i = vf_range(0, NB - 1); L j = vf_range(0, NB - 1); vf_assume(i < M && j < N);
    // op(A) is MxN: dgemv computes y(r) += sum_c opA(r,c) x(c) with opA = A(m x n) or A^T
    L rows = r_ta == 'N' ? r_m : r_n; L cols = r_ta == 'N' ? r_n : r_m;
    vf_assert(rows == M && cols == N, "op(A) has the logical shape of A");
    vf_assert((r_a - g_ma) + opaddr(r_ta, r_lda, i, j) == oa + i * as0 + j * as1, "op(A)(i,j) denotes A[i][j] for every index pair");
  }
  vf_reach("gemv");
}

VF_HARNESS(level1) {   // dot, axpy, scal, copy, swap, nrm2, asum, iamax on strided vectors
  L n = vf_range(0, 4); L sx = vf_range(1, 3); L sy = vf_range(1, 3); L ox = vf_range(0, 3); L oy = vf_range(0, 3);
  auto x = mk1(g_ma + ox, sx, n); auto y = mk1(g_mb + oy, sy, n);
  L op = vf_range(3, 10);
  double res = 0.0; long imax = -1; bool rejected = false;
  try {
    if(op == 3) { multi::blas::dot(x, y, res); }
    else if(op == 4) { multi::blas::axpy(2.0, x, y); }
    else if(op == 5) { multi::blas::scal(2.0, y); }
    else if(op == 6) { multi::blas::copy(x, y); }
    else if(op == 7) { multi::blas::swap(x, y); }
    else if(op == 8) { multi::blas::nrm2(x, res); }
    else if(op == 9) { multi::blas::asum(x, res); }
    else { if(n > 0) { imax = multi::blas::iamax(x.begin(), x.end()); /* the range form iamax(x) does not compile with assertions enabled: assert(!offset(x)) is ill-formed */ } else { rejected = true; } }
  } catch(...) { rejected = true; }
  if(!rejected) {
    vf_assert(r_calls == 1 && r_which == op, "exactly one call of the matching BLAS routine");
    vf_assert(r_n == n, "n is the logical length");
    if(op == 3 || op == 4 || op == 6 || op == 7) vf_assert(r_a == g_ma + ox && r_incx == sx && (op == 3 ? (r_b == g_mb + oy) : (r_c == g_mb + oy)) && r_incy == sy, "(x, incx, y, incy) denote the logical vectors");
    if(op == 5) vf_assert(r_c == g_mb + oy && r_incx == sy && r_alpha == 2.0, "(a, x, incx) denote the scalar and the vector");
    if(op == 4) vf_assert(r_alpha == 2.0, "alpha passed unchanged");
    if(op == 8 || op == 9 || op == 10) vf_assert(r_a == g_ma + ox && r_incx == sx, "(x, incx) denote the logical vector");
    if(op == 3) vf_assert(res == 42.0, "dot returns the routine's result");
    if(op == 8) vf_assert(res == 5.0, "nrm2 returns the routine's result");
    if(op == 9) vf_assert(res == 6.0, "asum returns the routine's result");
    if(op == 10) vf_assert(imax == 1, "iamax re-bases the 1-based Fortran position to a 0-based index");
  }
  vf_reach("level1");
}

template<int LAYOUT> static void t_syrk() {   // C (n x n, triangle `side`) = alpha*A*A^T + beta*C, A n x k; LAYOUT bits: (A, C) 1 = row-major
  L n = vf_range(1, NB); L k = vf_range(1, NB);
  L as0, as1, cs0, cs1; mat_layout_fixed((LAYOUT >> 1) & 1, n, k, as0, as1); mat_layout_fixed(LAYOUT & 1, n, n, cs0, cs1);
  L oa = vf_range(0, 3); L oc = vf_range(0, 3); L up = vf_range(0, 1);
  auto A = mk2(g_ma + oa, as0, as1, n, k); auto C = mk2(g_mc + oc, cs0, cs1, n, n);
  bool rejected = false;
  try { multi::blas::syrk(up ? multi::blas::filling::upper : multi::blas::filling::lower, 2.0, A, 3.0, std::move(C)); } catch(...) { rejected = true; }
  if(!rejected) {
    vf_assert(r_calls == 1 && r_which == 11, "exactly one dsyrk call");
    vf_assert((r_ta == 'U' || r_ta == 'L') && (r_tb == 'N' || r_tb == 'T' || r_tb == 'C'), "flags are valid");
    vf_assert(r_n == n && r_k == k, "n is the order of C and k the contracted extent of A");
    vf_assert(r_lda >= (r_tb == 'N' ? maxl(1, r_n) : maxl(1, r_k)) && r_ldc >= maxl(1, r_n), "leading dimensions satisfy the BLAS preconditions (else xerbla)");
    vf_assert(r_alpha == 2.0 && r_beta == 3.0 && r_c == g_mc + oc && r_a == g_ma + oa, "scalars unchanged, base pointers are the operands'");
    L r = vf_range(0, NB - 1); L c = vf_range(0, NB - 1); L l = vf_range(0, NB - 1); vf_assume(r < n && c < n && l < k);
    // op(A')(r,l) must be A[r][l]
    vf_assert(oa + (r_tb == 'N' ? r + l * r_lda : l + r * r_lda) == oa + r * as0 + l * as1, "op(A)(r,l) denotes A[r][l] for every index pair");
    // C'(r,c) = c + r + c*ldc is C[r][c] (column-major C) or C[c][r] (row-major C); the referenced triangle must be the user's
    bool direct = (r + c * r_ldc == r * cs0 + c * cs1); bool transposed = (r + c * r_ldc == c * cs0 + r * cs1);
    vf_assert(direct || transposed, "C'(r,c) denotes C[r][c] or, C being symmetric, C[c][r]");
    bool blas_tri = r_ta == 'U' ? r <= c : r >= c;
    L i = direct ? r : c; L j = direct ? c : r;
    if(r != c && !(direct && transposed)) vf_assert(blas_tri == (up ? i <= j : i >= j), "the triangle BLAS updates is the triangle the user selected");
  }
}
#define S(LY) VF_HARNESS(syrk_l##LY) { t_syrk<LY>(); vf_reach("syrk_l" #LY); }
S(0) S(1) S(2) S(3)

// trsm: b := alpha * a^-1 * b (side left, a is m x m) or alpha * b * a^-1 (side right, a is n x n); b is m x n; a triangular in the user's `fill` triangle.
// dtrsm(side', uplo', t', diag', m', n', alpha, A', lda, B', ldb) solves op(A') X = alpha B' (L) or X op(A') = alpha B' (R), B' m' x n' column-major.
// Either B' = b (direct: side' = side, op(A') = a) or B' = b^T (transposed: side' = the other side, op(A') = a^T).
template<int LAYOUT> static void t_trsm() {
  L m = vf_range(1, NB); L n = vf_range(1, NB); L left = vf_range(0, 1); L na = left ? m : n;
  L as0, as1, bs0, bs1; mat_layout_fixed((LAYOUT >> 1) & 1, na, na, as0, as1); mat_layout_fixed(LAYOUT & 1, m, n, bs0, bs1);
  L oa = vf_range(0, 3); L ob = vf_range(0, 3); L up = vf_range(0, 1); L unitdiag = vf_range(0, 1);
  auto A = mk2(g_ma + oa, as0, as1, na, na); auto B = mk2(g_mc + ob, bs0, bs1, m, n);
  bool rejected = false;
  try { multi::blas::trsm(left ? multi::blas::side::left : multi::blas::side::right, up ? multi::blas::filling::upper : multi::blas::filling::lower,
                          unitdiag ? multi::blas::diagonal::unit : multi::blas::diagonal::non_unit, 2.0, A, B); } catch(...) { rejected = true; }
  if(!rejected) {
    vf_assert(r_calls == 1 && r_which == 12, "exactly one dtrsm call");
    vf_assert((r_side == 'L' || r_side == 'R') && (r_ta == 'U' || r_ta == 'L') && (r_tb == 'N' || r_tb == 'T' || r_tb == 'C') && (r_diag == 'U' || r_diag == 'N'), "flags are valid");
    vf_assert((r_diag == 'U') == (unitdiag != 0), "the diagonal flag is the user's");
    vf_assert(r_m >= 1 && r_n >= 1 && r_ldb >= maxl(1, r_m) && r_lda >= maxl(1, r_side == 'L' ? r_m : r_n), "dimensions and leading dimensions satisfy the BLAS preconditions (else xerbla)");
    vf_assert(r_alpha == 2.0 && r_c == g_mc + ob && r_a == g_ma + oa, "alpha unchanged, base pointers are the operands'");
    L i = vf_range(0, NB - 1); L j = vf_range(0, NB - 1); vf_assume(i < m && j < n);
    L p = vf_range(0, NB - 1); L q = vf_range(0, NB - 1); vf_assume(p < na && q < na);
    L i2 = vf_range(0, NB - 1); L j2 = vf_range(0, NB - 1); vf_assume(i2 < m && j2 < n);
    L p2 = vf_range(0, NB - 1); L q2 = vf_range(0, NB - 1); vf_assume(p2 < na && q2 < na);
    // op(A')(r,c) lives at A' + (t'=='N' ? r + c*lda : c + r*lda); the stored A'(r,c) at r + c*lda is referenced iff uplo' covers (r,c)
    bool Df = r_m == m && r_n == n && (r_side == 'L') == (left != 0)
      && i + j * r_ldb == i * bs0 + j * bs1                                                      // B'(i,j) = b[i][j]
      && (r_tb == 'N' ? p + q * r_lda : q + p * r_lda) == p * as0 + q * as1                        // op(A')(p,q) = a[p][q]
      && (p == q || ((r_ta == 'U') == ((r_tb == 'N') ? p < q : q < p)) == (up ? p < q : p > q));   // the stored triangle holds the user's triangle
    bool Tf = r_m == n && r_n == m && (r_side == 'L') == (left == 0)
      && j2 + i2 * r_ldb == i2 * bs0 + j2 * bs1                                                  // B'(j,i) = b[i][j]
      && (r_tb == 'N' ? q2 + p2 * r_lda : p2 + q2 * r_lda) == p2 * as0 + q2 * as1                  // op(A')(q,p) = a[p][q]
      && (p2 == q2 || ((r_ta == 'U') == ((r_tb == 'N') ? q2 < p2 : p2 < q2)) == (up ? p2 < q2 : p2 > q2));
    vf_assert(Df || Tf, "the recorded dtrsm arguments denote b(i,j), a(p,q) and the user's triangle for every index tuple (direct or transposed form)");
  }
}
#define TR(LY) VF_HARNESS(trsm_l##LY) { t_trsm<LY>(); vf_reach("trsm_l" #LY); }
TR(0) TR(1) TR(2) TR(3)

// herk (complex): C (n x n, hermitian, user's triangle) = alpha*A*A^H + beta*C, A n x k.  zherk('N'): C'(r,c) = sum_l A'(r,l) conj(A'(c,l));
// zherk('C'): C'(r,c) = sum_l conj(A'(l,r)) A'(l,c).  With A'(r,l) = A[r][l] the first is (A A^H)(r,c), so C' must be C; with A'(l,r) = A[r][l]
// the second is (A A^H)(c,r), so C' must be C transposed.  ('T' is not a valid zherk flag.)  Unsupported layouts must be REJECTED (assert/throw).
static auto mkz(std::complex<double>* p, L s0, L s1, L n0, L n1) {
  multi::layout_t<1> l1(multi::layout_t<0>{}, s1, 0, s1 * n1);
  return multi::subarray<std::complex<double>, 2>(multi::layout_t<2>(l1, s0, 0, s0 * n0), p);
}
template<int LAYOUT> static void t_herk() {
  L n = vf_range(1, NB); L k = vf_range(1, NB);
  L as0, as1, cs0, cs1; mat_layout_fixed((LAYOUT >> 1) & 1, n, k, as0, as1); mat_layout_fixed(LAYOUT & 1, n, n, cs0, cs1);
  L oa = vf_range(0, 3); L oc = vf_range(0, 3); L up = vf_range(0, 1);
  auto A = mkz(g_za + oa, as0, as1, n, k); auto C = mkz(g_zc + oc, cs0, cs1, n, n);
  bool rejected = false;
  try { multi::blas::herk(up ? multi::blas::filling::upper : multi::blas::filling::lower, 2.0, A, 3.0, std::move(C)); } catch(...) { rejected = true; }
  if(!rejected) {
    vf_assert(r_calls == 1 && r_which == 13, "exactly one zherk call");
    vf_assert((r_ta == 'U' || r_ta == 'L') && (r_tb == 'N' || r_tb == 'C'), "flags are valid for zherk");
    vf_assert(r_n == n && r_k == k, "n is the order of C and k the contracted extent of A");
    vf_assert(r_lda >= (r_tb == 'N' ? maxl(1, r_n) : maxl(1, r_k)) && r_ldc >= maxl(1, r_n), "leading dimensions satisfy the BLAS preconditions (else xerbla)");
    vf_assert(r_alpha == 2.0 && r_beta == 3.0 && r_zc == g_zc + oc && r_za == g_za + oa, "scalars unchanged, base pointers are the operands'");
    L r = vf_range(0, NB - 1); L c = vf_range(0, NB - 1); L l = vf_range(0, NB - 1); vf_assume(r < n && c < n && l < k);
    bool const N = r_tb == 'N';
    vf_assert((N ? r + l * r_lda : l + r * r_lda) == r * as0 + l * as1, "the stored A' element that zherk reads as row r, column l of the factor is A[r][l]");
    L i = N ? r : c; L j = N ? c : r;    // C'(r,c) must denote C[i][j]
    vf_assert(r + c * r_ldc == i * cs0 + j * cs1, "C'(r,c) denotes (A A^H)'s element: C[r][c] for 'N', C[c][r] for 'C'");
    bool blas_tri = r_ta == 'U' ? r <= c : r >= c;
    if(r != c) vf_assert(blas_tri == (up ? i <= j : i >= j), "the triangle zherk updates is the triangle the user selected");
  }
}
#define HK(LY) VF_HARNESS(herk_l##LY) { t_herk<LY>(); vf_reach("herk_l" #LY); }   // every layout has accepted inputs (a single row at least), so the witness sits at the end
HK(0) HK(1) HK(2) HK(3)

// herk with a conjugated factor: A = blas::H(a) (a is k x n) or blas::J(a) (a is n x k; element-wise conjugate).  General rule: zherk computes
// C' = F F^H with F(r,l) = A'(r,l) ('N', tau = 0) or conj(A'(l,r)) ('C', tau = 1).  The address of F(r,l) must be the address of A(r,l); with sigma = 1
// (the view conjugates what is stored) F = conj^(tau+sigma) A, so C' denotes C when tau == sigma and C transposed otherwise.
template<int LAYOUT, int FORM> static void t_herk_conj() {   // FORM 0: H(a), 1: J(a)
  L n = vf_range(1, NB); L k = vf_range(1, NB);
  L ar = FORM == 0 ? k : n; L ac = FORM == 0 ? n : k;     // stored shape of a
  L as0, as1, cs0, cs1; mat_layout_fixed((LAYOUT >> 1) & 1, ar, ac, as0, as1); mat_layout_fixed(LAYOUT & 1, n, n, cs0, cs1);
  L oa = vf_range(0, 3); L oc = vf_range(0, 3); L up = vf_range(0, 1);
  auto a = mkz(g_za + oa, as0, as1, ar, ac); auto C = mkz(g_zc + oc, cs0, cs1, n, n);
  bool rejected = false;
  try { if constexpr(FORM == 0) { multi::blas::herk(up ? multi::blas::filling::upper : multi::blas::filling::lower, 2.0, multi::blas::H(a), 3.0, std::move(C)); }
        else { multi::blas::herk(up ? multi::blas::filling::upper : multi::blas::filling::lower, 2.0, multi::blas::J(a), 3.0, std::move(C)); } } catch(...) { rejected = true; }
  if(!rejected) {
    vf_assert(r_calls == 1 && r_which == 13, "exactly one zherk call");
    vf_assert((r_ta == 'U' || r_ta == 'L') && (r_tb == 'N' || r_tb == 'C'), "flags are valid for zherk");
    vf_assert(r_n == n && r_k == k, "n is the order of C and k the contracted extent of A");
    vf_assert(r_lda >= (r_tb == 'N' ? maxl(1, r_n) : maxl(1, r_k)) && r_ldc >= maxl(1, r_n), "leading dimensions satisfy the BLAS preconditions (else xerbla)");
    vf_assert(r_alpha == 2.0 && r_beta == 3.0 && r_zc == g_zc + oc && r_za == g_za + oa, "scalars unchanged, base pointers are the operands'");
    L r = vf_range(0, NB - 1); L c = vf_range(0, NB - 1); L l = vf_range(0, NB - 1); vf_assume(r < n && c < n && l < k);
    bool const N = r_tb == 'N';
    L want = FORM == 0 ? l * as0 + r * as1 : r * as0 + l * as1;   // where A(r,l) is stored (conjugated)
    vf_assert((N ? r + l * r_lda : l + r * r_lda) == want, "the stored element zherk reads as row r, column l of the factor is the one A(r,l) is stored in");
    bool const direct = !N;                                         // sigma = 1: direct iff tau == 1
    L i = direct ? r : c; L j = direct ? c : r;
    vf_assert(r + c * r_ldc == i * cs0 + j * cs1, "C'(r,c) denotes the matching element of A A^H");
    bool blas_tri = r_ta == 'U' ? r <= c : r >= c;
    if(r != c) vf_assert(blas_tri == (up ? i <= j : i >= j), "the triangle zherk updates is the triangle the user selected");
    vf_reach(FORM == 0 ? "herk_conj H accepted" : "herk_conj J accepted");
  }
}
#define HC(LY) VF_HARNESS(herkH_l##LY) { t_herk_conj<LY, 0>(); } VF_HARNESS(herkJ_l##LY) { t_herk_conj<LY, 1>(); }
HC(0) HC(1) HC(2) HC(3)

// gemm on complex<double> with conjugated factors: C = alpha*A*B + beta*C with A = a or J(a) (element-wise conjugate view), B = b or J(b); every
// storage order of a, b, C (compile-time LAYOUT as for dgemm).  H(x) is J of the other storage order of x, so the hermitian forms are included.
// zgemm computes C' = alpha op(A') op(B') + beta C'; op 'N': X'(r,c), 'T': X'(c,r), 'C': conj(X'(c,r)).  The call denotes the user's product iff
// (direct) C' = C, op(A')(i,l) is the element A(i,l) lives in with the same conjugation, op(B')(l,j) likewise; or (transposed) C' = C^T,
// op(A')(j,l) = B(l,j), op(B')(l,i) = A(i,l), again with matching conjugation.  Anything else must be rejected (logic_error or assert(0)).
static L zaddr(char t, L ld, L r, L c) { return t == 'N' ? r + c * ld : c + r * ld; }
template<int LAYOUT, int SA, int SB> static void t_zgemm() {
  L M = vf_range(1, NB); L N = vf_range(1, NB); L K = vf_range(1, NB);
  L as0, as1, bs0, bs1, cs0, cs1; mat_layout_fixed((LAYOUT >> 2) & 1, M, K, as0, as1); mat_layout_fixed((LAYOUT >> 1) & 1, K, N, bs0, bs1); mat_layout_fixed(LAYOUT & 1, M, N, cs0, cs1);
  L oa = vf_range(0, 3); L ob = vf_range(0, 3); L oc = vf_range(0, 3);
  auto a = mkz(g_za + oa, as0, as1, M, K); auto b = mkz(g_zb + ob, bs0, bs1, K, N); auto C = mkz(g_zc + oc, cs0, cs1, M, N);
  std::complex<double> const alpha{2.0, 0.5}; std::complex<double> const beta{3.0, 0.25};
  bool rejected = false;
  try {
    if constexpr(SA == 0 && SB == 0) { multi::blas::gemm(alpha, a, b, beta, C); }
    else if constexpr(SA == 0 && SB == 1) { multi::blas::gemm(alpha, a, multi::blas::J(b), beta, C); }
    else if constexpr(SA == 1 && SB == 0) { multi::blas::gemm(alpha, multi::blas::J(a), b, beta, C); }
    else { multi::blas::gemm(alpha, multi::blas::J(a), multi::blas::J(b), beta, C); }
  } catch(...) { rejected = true; }
  if(!rejected) {
    vf_assert(r_calls == 1 && r_which == 14, "exactly one zgemm call");
    vf_assert((r_ta == 'N' || r_ta == 'T' || r_ta == 'C') && (r_tb == 'N' || r_tb == 'T' || r_tb == 'C'), "transposition flags are valid");
    vf_assert(r_m >= 0 && r_n >= 0 && r_k == K, "dimensions are valid and k is the contracted dimension");
    vf_assert(r_lda >= (r_ta == 'N' ? maxl(1, r_m) : maxl(1, r_k)), "lda satisfies the BLAS precondition (else xerbla)");
    vf_assert(r_ldb >= (r_tb == 'N' ? maxl(1, r_k) : maxl(1, r_n)), "ldb satisfies the BLAS precondition (else xerbla)");
    vf_assert(r_ldc >= maxl(1, r_m), "ldc satisfies the BLAS precondition (else xerbla)");
    vf_assert(r_alpha == 2.0 && r_ai == 0.5 && r_beta == 3.0 && r_bi == 0.25, "alpha and beta are passed unchanged (not conjugated)");
    L i = vf_range(0, NB - 1); L j = vf_range(0, NB - 1); L l = vf_range(0, NB - 1); vf_assume(i < M && j < N && l < K);
    L i2 = vf_range(0, NB - 1); L j2 = vf_range(0, NB - 1); L l2 = vf_range(0, NB - 1); vf_assume(i2 < M && j2 < N && l2 < K);
    bool a_is_B = vf_within(r_za, g_zb, sizeof g_zb), b_is_A = vf_within(r_zb, g_za, sizeof g_za), a_is_A = vf_within(r_za, g_za, sizeof g_za), b_is_B = vf_within(r_zb, g_zb, sizeof g_zb);
    bool c_ok = vf_within(r_zc, g_zc, sizeof g_zc);
    bool const ca = r_ta == 'C', cb = r_tb == 'C';
    bool Tf = c_ok && a_is_B && b_is_A && r_m == N && r_n == M && ca == (SB == 1) && cb == (SA == 1)
      && (r_zc - g_zc) + zaddr('N', r_ldc, j, i) == oc + i * cs0 + j * cs1
      && (r_za - g_zb) + zaddr(r_ta, r_lda, j, l) == ob + l * bs0 + j * bs1
      && (r_zb - g_za) + zaddr(r_tb, r_ldb, l, i) == oa + i * as0 + l * as1;
    bool Df = c_ok && a_is_A && b_is_B && r_m == M && r_n == N && ca == (SA == 1) && cb == (SB == 1)
      && (r_zc - g_zc) + zaddr('N', r_ldc, i2, j2) == oc + i2 * cs0 + j2 * cs1
      && (r_za - g_za) + zaddr(r_ta, r_lda, i2, l2) == oa + i2 * as0 + l2 * as1
      && (r_zb - g_zb) + zaddr(r_tb, r_ldb, l2, j2) == ob + l2 * bs0 + j2 * bs1;
    vf_assert(Tf || Df, "the recorded zgemm arguments denote C(i,j), A(i,l), B(l,j) with their conjugations for every index triple (direct or transposed form)");
    vf_reach("zgemm accepted");
  }
}
#define ZG(LY, SA, SB) VF_HARNESS(zgemm_s##SA##SB##_l##LY) { t_zgemm<LY, SA, SB>(); }
#define ZG8(SA, SB) ZG(0, SA, SB) ZG(1, SA, SB) ZG(2, SA, SB) ZG(3, SA, SB) ZG(4, SA, SB) ZG(5, SA, SB) ZG(6, SA, SB) ZG(7, SA, SB)
ZG8(0, 0) ZG8(0, 1) ZG8(1, 0) ZG8(1, 1)

// gemv on complex<double>: y = alpha*A*x + beta*y with A = a or J(a) (conjugated view), a row- or column-major with padding
template<int SA> static void t_zgemv() {
  L M = vf_range(1, NB); L N = vf_range(1, NB);
  L as0, as1; mat_layout(M, N, as0, as1);
  L sx = vf_range(1, 3); L sy = vf_range(1, 3); L oa = vf_range(0, 3); L ox = vf_range(0, 3); L oy = vf_range(0, 3);
  auto a = mkz(g_za + oa, as0, as1, M, N);
  multi::subarray<std::complex<double>, 1> x(multi::layout_t<1>(multi::layout_t<0>{}, sx, 0, sx * N), g_zb + ox);
  multi::subarray<std::complex<double>, 1> y(multi::layout_t<1>(multi::layout_t<0>{}, sy, 0, sy * M), g_zc + oy);
  std::complex<double> const alpha{2.0, 0.5}; std::complex<double> const beta{3.0, 0.25};
  bool rejected = false;
  try { if constexpr(SA == 0) { multi::blas::gemv(alpha, a, x, beta, y); } else { multi::blas::gemv(alpha, multi::blas::J(a), x, beta, y); } } catch(...) { rejected = true; }
  if(!rejected) {
    vf_assert(r_calls == 1 && r_which == 15, "exactly one zgemv call");
    vf_assert(r_ta == 'N' || r_ta == 'T' || r_ta == 'C', "transposition flag is valid");
    vf_assert(r_lda >= maxl(1, r_m), "lda satisfies the BLAS precondition");
    vf_assert(r_incx == sx && r_incy == sy && r_zb == g_zb + ox && r_zc == g_zc + oy, "vector arguments denote x and y");
    vf_assert(r_alpha == 2.0 && r_ai == 0.5 && r_beta == 3.0 && r_bi == 0.25, "alpha and beta are passed unchanged");
    L i = vf_range(0, NB - 1); L j = vf_range(0, NB - 1); vf_assume(i < M && j < N);
    L rows = r_ta == 'N' ? r_m : r_n; L cols = r_ta == 'N' ? r_n : r_m;
    vf_assert(rows == M && cols == N, "op(A) has the logical shape of A");
    vf_assert((r_za - g_za) + zaddr(r_ta, r_lda, i, j) == oa + i * as0 + j * as1, "op(A)(i,j) denotes the element A(i,j) is stored in, for every index pair");
    vf_assert((r_ta == 'C') == (SA == 1), "the flag conjugates exactly when the view does");
    vf_reach("zgemv accepted");
  }
}
VF_HARNESS(zgemv_s0) { t_zgemv<0>(); }
VF_HARNESS(zgemv_s1) { t_zgemv<1>(); }

// dot on complex<double>: dot(x, y) = sum x_i y_i (dotu; realised through zgemv('N', 1, n, ...)), dot(x, C(y)) = sum x_i conj(y_i), dot(C(x), y) = sum conj(x_i) y_i;
// zdotc(n, X, incX, Y, incY) = sum conj(X_i) Y_i, so the conjugated operand must be passed FIRST.
template<int SX, int SY> static void t_zdot() {
  L n = vf_range(0, 4); L sx = vf_range(1, 3); L sy = vf_range(1, 3); L ox = vf_range(0, 3); L oy = vf_range(0, 3);
  multi::subarray<std::complex<double>, 1> x(multi::layout_t<1>(multi::layout_t<0>{}, sx, 0, sx * n), g_za + ox);
  multi::subarray<std::complex<double>, 1> y(multi::layout_t<1>(multi::layout_t<0>{}, sy, 0, sy * n), g_zb + oy);
  std::complex<double> res{-1.0, -1.0};
  bool rejected = false;
  try { if constexpr(SX == 0 && SY == 0) { multi::blas::dot(x, y, res); } else if constexpr(SX == 0 && SY == 1) { multi::blas::dot(x, multi::blas::C(y), res); } else { multi::blas::dot(multi::blas::C(x), y, res); } } catch(...) { rejected = true; }
  if(!rejected) {
    vf_assert(r_calls == 1, "exactly one BLAS call");
    if(SX == 0 && SY == 0) {
      vf_assert(r_which == 15 || r_which == 16, "dotu is realised by zgemv (or zdotu)");
      if(r_which == 15) {
        vf_assert(r_ta == 'N' && r_m == 1 && r_n == n && r_alpha == 1.0 && r_ai == 0.0 && r_beta == 0.0 && r_bi == 0.0, "1 x n matrix times vector, alpha = 1, beta = 0");
        vf_assert(r_lda >= 1, "lda satisfies the BLAS precondition");
        bool const direct = r_za == g_za + ox && r_lda == sx && r_zb == g_zb + oy && r_incx == sy;
        bool const swapped = r_za == g_zb + oy && r_lda == sy && r_zb == g_za + ox && r_incx == sx;
        vf_assert(direct || swapped || n <= 1, "the 1 x n matrix and the vector denote x and y (in either order)");
        vf_assert(r_zc == &res, "the result is written to the caller's result");
      }
    } else {
      vf_assert(r_which == 16, "a conjugated operand selects zdotc");
      vf_assert(r_n == n, "n is the logical length");
      if(SX == 1) vf_assert(r_za == g_za + ox && r_incx == sx && r_zb == g_zb + oy && r_incy == sy, "zdotc conjugates its FIRST argument: (x, incx) first");
      else        vf_assert(r_za == g_zb + oy && r_incx == sy && r_zb == g_za + ox && r_incy == sx, "zdotc conjugates its FIRST argument: (y, incy) first");
      vf_assert(res.real() == 7.0 && res.imag() == 8.0, "dot returns the routine's result");
    }
    vf_reach("zdot accepted");
  }
}
VF_HARNESS(zdot_s00) { t_zdot<0, 0>(); }
VF_HARNESS(zdot_s01) { t_zdot<0, 1>(); }
VF_HARNESS(zdot_s10) { t_zdot<1, 0>(); }

// trsm on complex<double> with conjugated views: b := alpha * a^-1 * b (left) or alpha * b * a^-1 (right) with a = a0 or J(a0), b = b0 or J(b0).
// ztrsm overwrites what is STORED: with b = conj(b0) the stored result must be conj(alpha) * conj(a)^-1 * b0, i.e. the effective scalar is conj^SB(alpha)
// and the effective triangular matrix is conj^(SA xor SB)(a0); flag 'C' is the only way to conjugate and it also transposes.
template<int SA, int SB, class AA, class BB> static void ztrsm_call(multi::blas::side sd, multi::blas::filling fl, multi::blas::diagonal dg, std::complex<double> alpha, AA& a, BB& b) {   // operand types are dependent here, so the discarded branches are not instantiated
  if constexpr(SA == 0 && SB == 0) { multi::blas::trsm(sd, fl, dg, alpha, a, b); }
  else if constexpr(SA == 1 && SB == 0) { multi::blas::trsm(sd, fl, dg, alpha, multi::blas::J(a), b); }
  else if constexpr(SA == 0 && SB == 1) { multi::blas::trsm(sd, fl, dg, alpha, a, multi::blas::J(b)); }
  else { multi::blas::trsm(sd, fl, dg, alpha, multi::blas::J(a), multi::blas::J(b)); }
}
template<int LAYOUT, int SA, int SB> static void t_ztrsm() {
  L m = vf_range(1, NB); L n = vf_range(1, NB); L left = vf_range(0, 1); L na = left ? m : n;
  L as0, as1, bs0, bs1; mat_layout_fixed((LAYOUT >> 1) & 1, na, na, as0, as1); mat_layout_fixed(LAYOUT & 1, m, n, bs0, bs1);
  L oa = vf_range(0, 3); L ob = vf_range(0, 3); L up = vf_range(0, 1); L unitdiag = vf_range(0, 1);
  auto a = mkz(g_za + oa, as0, as1, na, na); auto b = mkz(g_zc + ob, bs0, bs1, m, n);
  std::complex<double> const alpha{2.0, 0.5};
  auto const sd = left ? multi::blas::side::left : multi::blas::side::right; auto const fl = up ? multi::blas::filling::upper : multi::blas::filling::lower;
  auto const dg = unitdiag ? multi::blas::diagonal::unit : multi::blas::diagonal::non_unit;
  bool rejected = false;
  try { ztrsm_call<SA, SB>(sd, fl, dg, alpha, a, b);
  } catch(...) { rejected = true; }
  if(!rejected) {
    vf_assert(r_calls == 1 && r_which == 17, "exactly one ztrsm call");
    vf_assert((r_side == 'L' || r_side == 'R') && (r_ta == 'U' || r_ta == 'L') && (r_tb == 'N' || r_tb == 'T' || r_tb == 'C') && (r_diag == 'U' || r_diag == 'N'), "flags are valid");
    vf_assert((r_diag == 'U') == (unitdiag != 0), "the diagonal flag is the user's");
    vf_assert(r_m >= 1 && r_n >= 1 && r_ldb >= maxl(1, r_m) && r_lda >= maxl(1, r_side == 'L' ? r_m : r_n), "dimensions and leading dimensions satisfy the BLAS preconditions (else xerbla)");
    vf_assert(r_zc == g_zc + ob && r_za == g_za + oa, "base pointers are the operands'");
    vf_assert(r_alpha == 2.0 && r_ai == (SB ? -0.5 : 0.5), "the scalar is alpha, conjugated exactly when b is a conjugated view");
    vf_assert((r_tb == 'C') == ((SA ^ SB) == 1), "the flag conjugates exactly when the effective triangular matrix is conjugated");
    L i = vf_range(0, NB - 1); L j = vf_range(0, NB - 1); vf_assume(i < m && j < n);
    L p = vf_range(0, NB - 1); L q = vf_range(0, NB - 1); vf_assume(p < na && q < na);
    L i2 = vf_range(0, NB - 1); L j2 = vf_range(0, NB - 1); vf_assume(i2 < m && j2 < n);
    L p2 = vf_range(0, NB - 1); L q2 = vf_range(0, NB - 1); vf_assume(p2 < na && q2 < na);
    bool const NN = r_tb == 'N';
    bool Df = r_m == m && r_n == n && (r_side == 'L') == (left != 0)
      && i + j * r_ldb == i * bs0 + j * bs1
      && (NN ? p + q * r_lda : q + p * r_lda) == p * as0 + q * as1
      && (p == q || ((r_ta == 'U') == (NN ? p < q : q < p)) == (up ? p < q : p > q));
    bool Tf = r_m == n && r_n == m && (r_side == 'L') == (left == 0)
      && j2 + i2 * r_ldb == i2 * bs0 + j2 * bs1
      && (NN ? q2 + p2 * r_lda : p2 + q2 * r_lda) == p2 * as0 + q2 * as1
      && (p2 == q2 || ((r_ta == 'U') == (NN ? q2 < p2 : p2 < q2)) == (up ? p2 < q2 : p2 > q2));
    vf_assert(Df || Tf, "the recorded ztrsm arguments denote b(i,j), a(p,q) and the user's triangle for every index tuple (direct or transposed form)");
    vf_reach("ztrsm accepted");
  }
}
#define ZT(LY, SA, SB) VF_HARNESS(ztrsm_s##SA##SB##_l##LY) { t_ztrsm<LY, SA, SB>(); }
#define ZT4(SA, SB) ZT(0, SA, SB) ZT(1, SA, SB) ZT(2, SA, SB) ZT(3, SA, SB)
ZT4(0, 0) ZT4(1, 0) ZT4(0, 1)   // trsm(J(a), J(b)) is ill-formed when instantiated (trsm.hpp names an undeclared `bbase`): no behaviour to check

VF_HARNESS(zlevel1) {   // axpy, scal, copy, swap, nrm2, asum, iamax on strided vectors of complex<double>
  L n = vf_range(0, 4); L sx = vf_range(1, 3); L sy = vf_range(1, 3); L ox = vf_range(0, 3); L oy = vf_range(0, 3);
  multi::subarray<std::complex<double>, 1> x(multi::layout_t<1>(multi::layout_t<0>{}, sx, 0, sx * n), g_za + ox);
  multi::subarray<std::complex<double>, 1> y(multi::layout_t<1>(multi::layout_t<0>{}, sy, 0, sy * n), g_zb + oy);
  std::complex<double> const alpha{2.0, 0.5};
  L op = vf_range(24, 30);
  double res = 0.0; long imax = -1; bool rejected = false;
  try {
    if(op == 24) { multi::blas::axpy(alpha, x, y); }
    else if(op == 25) { multi::blas::scal(alpha, y); }
    else if(op == 26) { multi::blas::copy(x, y); }
    else if(op == 27) { multi::blas::swap(x, y); }
    else if(op == 28) { multi::blas::nrm2(x, res); }
    else if(op == 29) { multi::blas::asum(x, res); }
    else { if(n > 0) { imax = multi::blas::iamax(x.begin(), x.end()); } else { rejected = true; } }
  } catch(...) { rejected = true; }
  if(!rejected) {
    vf_assert(r_calls == 1 && r_which == op, "exactly one call of the matching complex BLAS routine");
    vf_assert(r_n == n, "n is the logical length");
    if(op == 24 || op == 26 || op == 27) vf_assert(r_za == g_za + ox && r_incx == sx && r_zc == g_zb + oy && r_incy == sy, "(x, incx, y, incy) denote the logical vectors");
    if(op == 25) vf_assert(r_zc == g_zb + oy && r_incx == sy && r_alpha == 2.0 && r_ai == 0.5, "(a, x, incx) denote the scalar and the vector");
    if(op == 24) vf_assert(r_alpha == 2.0 && r_ai == 0.5, "alpha passed unchanged");
    if(op == 28 || op == 29 || op == 30) vf_assert(r_za == g_za + ox && r_incx == sx, "(x, incx) denote the logical vector");
    if(op == 28) vf_assert(res == 5.0, "nrm2 returns the routine's result");
    if(op == 29) vf_assert(res == 6.0, "asum returns the routine's result");
    if(op == 30) vf_assert(imax == 1, "iamax re-bases the 1-based Fortran position to a 0-based index");
  }
  vf_reach("zlevel1");
}

VF_HARNESS(gemv_forms) {   // lazy gemv range: y = gemv(alpha, A, x) (beta = 0), y += gemv(alpha, A, x) (beta = 1)
  L M = vf_range(1, NB); L N = vf_range(1, NB);
  L as0, as1; mat_layout(M, N, as0, as1);
  L sx = vf_range(1, 3); L sy = vf_range(1, 3); L oa = vf_range(0, 3); L ox = vf_range(0, 3); L oy = vf_range(0, 3);
  auto A = mk2(g_ma + oa, as0, as1, M, N); auto x = mk1(g_mb + ox, sx, N); auto y = mk1(g_mc + oy, sy, M);
  L form = vf_range(0, 1); bool rejected = false;
  try { if(form == 0) { y = multi::blas::gemv(2.0, A, x); } else { y += multi::blas::gemv(2.0, A, x); } } catch(...) { rejected = true; }
  if(!rejected) {
    vf_assert(r_calls == 1 && r_which == 2, "exactly one dgemv call");
    vf_assert(r_ta == 'N' || r_ta == 'T', "transposition flag is valid");
    vf_assert(r_lda >= maxl(1, r_m), "lda satisfies the BLAS precondition");
    vf_assert(r_incx == sx && r_incy == sy && r_b == g_mb + ox && r_c == g_mc + oy, "vector arguments denote x and y");
    vf_assert(r_alpha == 2.0 && r_beta == (form == 0 ? 0.0 : 1.0), "alpha is the range's scalar; beta is 0 for assignment and 1 for +=");
    L i = vf_range(0, NB - 1); L j = vf_range(0, NB - 1); vf_assume(i < M && j < N);
    L rows = r_ta == 'N' ? r_m : r_n; L cols = r_ta == 'N' ? r_n : r_m;
    vf_assert(rows == M && cols == N, "op(A) has the logical shape of A");
    vf_assert((r_a - g_ma) + opaddr(r_ta, r_lda, i, j) == oa + i * as0 + j * as1, "op(A)(i,j) denotes A[i][j] for every index pair");
  }
  vf_reach("gemv_forms");
}
