// C03, proxy-row ranges: begin()/end() of an ARBITRARY 2-D view (symbolic extents, both strides, origin: sub-blocks, transposed, strided);
// dereferencing the iterator yields a proxy sub-view (a row), not a reference to a stored value.  The same libstdc++ algorithm is applied to a
// plain array of value rows `Row` (lexicographic ==, <) holding the logical contents; afterwards the logical contents, the returned position and
// every cell outside the view are compared.  Storage contents are symbolic in {0..3} (duplicate rows occur).
#define VF_NO_GMEM
#define ELEM int
#include "spec.hpp"
#include <boost/multi/array.hpp>
#include <algorithm>
#include <numeric>
#ifndef MEMSZ2
#define MEMSZ2 16
#endif
#ifndef RDIM
#define RDIM 2   // dimensionality of the view whose rows are the range: 2 (1-D proxy rows) or 3 (2-D proxy rows)
#endif
constexpr int D = RDIM; constexpr int NCMAX = RDIM == 2 ? NB : NB * NB;
extern "C" { int g_m[MEMSZ2]; int g_old[MEMSZ2]; int g_o[MEMSZ2]; int g_oold[MEMSZ2]; }

struct Row { int v[NCMAX]; int n;
  friend bool operator==(Row const& a, Row const& b) { bool e = a.n == b.n;
#pragma unroll
    for(int c = 0; c < NCMAX; ++c) if(c < a.n && c < b.n) e = e && a.v[c] == b.v[c];
    return e; }
  friend bool operator!=(Row const& a, Row const& b) { return !(a == b); }
  friend bool operator<(Row const& a, Row const& b) { int r = 0;
#pragma unroll
    for(int c = 0; c < NCMAX; ++c) if(r == 0 && c < a.n && c < b.n) r = a.v[c] < b.v[c] ? -1 : (a.v[c] > b.v[c] ? 1 : 0);
    return r != 0 ? r < 0 : a.n < b.n; }
};
struct Env { Spec<D> s; L n; Row ref[NB]; };
#if RDIM == 3 && defined(PERMUTED)
// gap-free 3-D layouts whose dimension order is an arbitrary permutation (whole arrays seen through rotated / unrotated / transposed): symbolic extents, permutation, origin
static Spec<3> source_spec(L memsz) {
  Spec<3> s{}; L p = vf_range(0, 5); L n[3] = {vf_range(0, NB), vf_range(0, NB), vf_range(0, NB)};
  int const order[6][3] = {{0, 1, 2}, {0, 2, 1}, {1, 0, 2}, {1, 2, 0}, {2, 0, 1}, {2, 1, 0}};   // order[p][k] = the k-th fastest dimension
  L st = 1;
#pragma unroll
  for(int k = 0; k < 3; ++k) {
#pragma unroll
    for(int d = 0; d < 3; ++d) if(order[p][k] == d) { s.d[d].stride = st; st *= (n[d] > 0 ? n[d] : 1); }
  }
#pragma unroll
  for(int d = 0; d < 3; ++d) { s.d[d].size = n[d]; s.d[d].first = 0; }
  s.origin = vf_range(0, memsz - 1); vf_assume(s.origin + spec_hull(s) < memsz);
  return s;
}
static Spec<3> source_spec_like(Spec<3> const& like, L memsz) {
  Spec<3> s = source_spec(memsz);
#pragma unroll
  for(int d = 0; d < 3; ++d) vf_assume(s.d[d].size == like.d[d].size);
  return s;
}
#else
static Spec<D> source_spec(L memsz) { return arbitrary_spec<D>(0, 0, memsz); }
static Spec<D> source_spec_like(Spec<D> const& like, L memsz) { return arbitrary_spec_like(like, 0, memsz); }
#endif
static L inner(Spec<D> const& s) { L p = 1;
#pragma unroll
  for(int k = 1; k < D; ++k) p *= s.d[k].size;
  return p; }
static L addr_rc(Spec<D> const& s, L r, L c) {   // row r, c-th element of the row in canonical order
#if RDIM == 2
  L idx[D] = {r, c};
#else
  L idx[D] = {r, c / s.d[2].size, c % s.d[2].size};
#endif
  return spec_addr(s, idx); }
static Env setup(L minrows, int* mem = g_m, int* old = g_old) {
  Env e;
#pragma unroll
  for(int c = 0; c < MEMSZ2; ++c) { int x = vf_nondet_int(); vf_assume(0 <= x && x <= 3); mem[c] = x; old[c] = x; }
  e.s = source_spec(MEMSZ2); vf_assume(spec_injective(e.s)); vf_assume(e.s.d[0].size >= minrows && inner(e.s) >= 1);
  e.n = e.s.d[0].size;
#pragma unroll
  for(int r = 0; r < NB; ++r) { e.ref[r].n = static_cast<int>(inner(e.s));
#pragma unroll
    for(int c = 0; c < NCMAX; ++c) e.ref[r].v[c] = (r < e.n && c < inner(e.s)) ? mem[addr_rc(e.s, r, c)] : -1; }
  return e;
}
static Env setup2(Env const& e) {
  Env f;
#pragma unroll
  for(int c = 0; c < MEMSZ2; ++c) { int x = vf_nondet_int(); vf_assume(0 <= x && x <= 3); g_o[c] = x; g_oold[c] = x; }
  f.s = source_spec_like(e.s, MEMSZ2); vf_assume(spec_injective(f.s)); f.n = e.n;
#pragma unroll
  for(int r = 0; r < NB; ++r) { f.ref[r].n = e.ref[r].n;
#pragma unroll
    for(int c = 0; c < NCMAX; ++c) f.ref[r].v[c] = (r < f.n && c < inner(f.s)) ? g_o[addr_rc(f.s, r, c)] : -1; }
  return f;
}
static void check_rows(Env const& e, L upto, int const* mem = g_m) {
  bool same = true;
#pragma unroll
  for(int r = 0; r < NB; ++r)
#pragma unroll
    for(int c = 0; c < NCMAX; ++c) if(r < upto && c < inner(e.s)) same = same && mem[addr_rc(e.s, r, c)] == e.ref[r].v[c];
  vf_assert(same, "viewed rows equal the result on independent value rows");
}
static void check_outside(Env const& e, int const* mem = g_m, int const* old = g_old) {
  L c = vf_range(0, MEMSZ2 - 1); L i[D];
  if(!spec_designates(e.s, c, i)) vf_assert(mem[c] == old[c], "elements outside the view are left unchanged");
}
static void check_contents(Env const& e, int const* mem = g_m, int const* old = g_old) { check_rows(e, e.n, mem); check_outside(e, mem, old); }
#define RANGE_OF(e, mem) auto v_ = view_of<D, int>((e).s, mem, MEMSZ2); auto first = v_.begin(); auto last = v_.end()
#define CRANGE_OF(e, mem) auto const v_ = view_of<D, int>((e).s, mem, MEMSZ2); auto first = v_.begin(); auto last = v_.end()

VF_HARNESS(rows_reverse) { Env e = setup(0); { RANGE_OF(e, g_m); std::reverse(first, last); } std::reverse(e.ref, e.ref + e.n); check_contents(e); vf_reach("rows_reverse"); }
VF_HARNESS(rows_swap_ranges) {
  Env e = setup(0); Env f = setup2(e);
  { RANGE_OF(e, g_m); auto w_ = view_of<D, int>(f.s, g_o, MEMSZ2); std::swap_ranges(first, last, w_.begin()); }
#pragma unroll
  for(int r = 0; r < NB; ++r) { Row t = e.ref[r]; e.ref[r] = f.ref[r]; f.ref[r] = t; }
  check_contents(e); check_contents(f, g_o, g_oold); vf_reach("rows_swap_ranges");
}
VF_HARNESS(rows_copy_move_backward) {
  Env e = setup(0); Env f = setup2(e); L which = vf_range(0, 2); L pos;
  { CRANGE_OF(e, g_m); auto w_ = view_of<D, int>(f.s, g_o, MEMSZ2); auto dfirst = w_.begin(); auto dlast = w_.end();
    if(which == 0) { pos = std::copy(first, last, dfirst) - dfirst; } else if(which == 1) { pos = dlast - std::copy_backward(first, last, dlast); } else { pos = std::move(first, last, dfirst) - dfirst; } }
  vf_assert(pos == e.n, "returns the end of the destination range");
#pragma unroll
  for(int r = 0; r < NB; ++r) f.ref[r] = e.ref[r];
  check_contents(f, g_o, g_oold); check_contents(e); vf_reach("rows_copy_move_backward");
}
VF_HARNESS(rows_shift_right) {   // copy_backward(first, last - 1, last) within one view: iterator - integer, decrement from end(), overlapping proxy assignment
  Env e = setup(1);
  { RANGE_OF(e, g_m); std::copy_backward(first, last - 1, last); }
  std::copy_backward(e.ref, e.ref + e.n - 1, e.ref + e.n);
  check_contents(e); vf_reach("rows_shift_right");
}
VF_HARNESS(rows_fill) {   // fill every row with one row of another view
  Env e = setup(0); Env f = setup2(e); vf_assume(f.n >= 1);
  { RANGE_OF(e, g_m); auto const w_ = view_of<D, int>(f.s, g_o, MEMSZ2); std::fill(first, last, w_[0]); }
#pragma unroll
  for(int r = 0; r < NB; ++r) e.ref[r] = f.ref[0];
  check_contents(e); check_contents(f, g_o, g_oold); vf_reach("rows_fill");
}
VF_HARNESS(rows_queries) {   // find (a row equal to a given row), is_sorted, equal, lexicographical_compare: non-modifying
  Env e = setup(0); Env f = setup2(e); vf_assume(f.n >= 1); L p1; bool so, eq, lt;
  { CRANGE_OF(e, g_m); auto const w_ = view_of<D, int>(f.s, g_o, MEMSZ2);
    p1 = std::find(first, last, w_[0]) - first; so = std::is_sorted(first, last);
    eq = std::equal(first, last, w_.begin()); lt = std::lexicographical_compare(first, last, w_.begin(), w_.end()); }
  vf_assert(p1 == std::find(e.ref, e.ref + e.n, f.ref[0]) - e.ref, "find returns the same position");
  vf_assert(so == std::is_sorted(e.ref, e.ref + e.n), "is_sorted agrees");
  vf_assert(eq == std::equal(e.ref, e.ref + e.n, f.ref), "equal agrees");
  vf_assert(lt == std::lexicographical_compare(e.ref, e.ref + e.n, f.ref, f.ref + f.n), "lexicographical_compare agrees");
  check_contents(e); check_contents(f, g_o, g_oold); vf_reach("rows_queries");
}
VF_HARNESS(rows_remove_unique) {
  Env e = setup(0); Env f = setup2(e); vf_assume(f.n >= 1); L which = vf_range(0, 1); L pos, rpos;
  { RANGE_OF(e, g_m); auto const w_ = view_of<D, int>(f.s, g_o, MEMSZ2);
    if(which == 0) { pos = std::remove(first, last, w_[0]) - first; } else { pos = std::unique(first, last) - first; } }
  if(which == 0) { rpos = std::remove(e.ref, e.ref + e.n, f.ref[0]) - e.ref; } else { rpos = std::unique(e.ref, e.ref + e.n) - e.ref; }
  vf_assert(pos == rpos, "same new end");
  check_rows(e, rpos); check_outside(e); vf_reach("rows_remove_unique");
}
VF_HARNESS(rows_partition) {
  Env e = setup(0); L pos;
  { RANGE_OF(e, g_m); pos = std::partition(first, last, [](auto const& row) { return *row.elements().begin() < 2; }) - first; }
  L cnt = 0; bool ok = true;
#pragma unroll
  for(int r = 0; r < NB; ++r) if(r < e.n) cnt += e.ref[r].v[0] < 2;
#pragma unroll
  for(int r = 0; r < NB; ++r) if(r < e.n) ok = ok && ((r < pos) == (g_m[addr_rc(e.s, r, 0)] < 2));
  vf_assert(pos == cnt && ok, "returns the partition point; rows before it satisfy the predicate, the others do not");
  // the rows are a permutation of the original rows: every original row occurs as often as before
  bool perm = true;
#pragma unroll
  for(int r = 0; r < NB; ++r) if(r < e.n) { int a = 0, b = 0;
#pragma unroll
    for(int q = 0; q < NB; ++q) if(q < e.n) { Row now; now.n = e.ref[r].n;
#pragma unroll
        for(int c = 0; c < NCMAX; ++c) now.v[c] = c < now.n ? g_m[addr_rc(e.s, q, c)] : -1;
        a += now == e.ref[r]; b += e.ref[q] == e.ref[r]; }
    perm = perm && a == b; }
  vf_assert(perm, "the rows are a permutation of the original rows");
  check_outside(e); vf_reach("rows_partition");
}
VF_HARNESS(rows_rotate) {
  Env e = setup(1); L mid = vf_nondet_long(); vf_assume(0 <= mid && mid <= e.n); L pos;
  { RANGE_OF(e, g_m); pos = std::rotate(first, first + mid, last) - first; }
  L rpos = std::rotate(e.ref, e.ref + mid, e.ref + e.n) - e.ref;
  vf_assert(pos == rpos, "returns the same position"); check_contents(e); vf_reach("rows_rotate");
}
VF_HARNESS(rows_sort) {
  Env e = setup(0);
  { RANGE_OF(e, g_m); std::sort(first, last); }
  std::sort(e.ref, e.ref + e.n); check_contents(e); vf_reach("rows_sort");
}
