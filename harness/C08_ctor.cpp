// C08: every element is constructed once and destroyed once; storage is returned.
// The ghost alive-bitmap / allocator ledger assertions live in own.hpp (Tr, A<T>) and are cbmc properties on every path of every
// harness over owning arrays (C04, C06 are registered under C08 with ELT=Tr as well).  This TU adds: every CONSTRUCTOR form followed by
// destruction, and the obligation that sizing constructors / fill-less reextent do not write elements of trivially default-constructible types.
// -DDIM=1|2 -DELT=int|Tr
#include "own_state.hpp"
#include <vector>

static void fin() { check_all_released(); }

VF_HARNESS(ctor_extents_value) { L n[D]; draw_extents<D>(n, 0, NB); SLOT(0); { Arr a(exts<D>(n), T(4)); vf_assert(has_extents<D>(a, n), "extents"); if(prod<D>(n) > 0) { L i[D]; draw_tuple<D>(n, i); vf_assert(val(at<D>(a, i)) == 4, "every element equals the fill value"); } } fin(); vf_reach("ctor_extents_value"); }
VF_HARNESS(ctor_extents) { L n[D]; draw_extents<D>(n, 0, NB); SLOT(0); { Arr a(exts<D>(n)); vf_assert(has_extents<D>(a, n), "extents");
  if constexpr(!std::is_trivially_default_constructible_v<T>) { if(prod<D>(n) > 0) { L i[D]; draw_tuple<D>(n, i); vf_assert(val(at<D>(a, i)) == 0, "elements are value-initialised"); } } } fin(); vf_reach("ctor_extents"); }
VF_HARNESS(ctor_default_and_alloc) { { Arr a; Arr b{A<T>(3)}; vf_assert(a.is_empty() && b.is_empty() && b.get_allocator().id == 3, "empty arrays, supplied allocator kept"); } vf_assert(g_nalloc == 0, "default construction does not allocate"); fin(); vf_reach("ctor_default_and_alloc"); }
VF_HARNESS(ctor_copy) { Slot a; make_state<1>(a, 10, 0); SLOT(2); { Arr c(*a); check_value(c, a.n, 10, "copy"); } a.destroy(); fin(); vf_reach("ctor_copy"); }
VF_HARNESS(ctor_copy_alloc) { Slot a; make_state<1>(a, 10, 0); SLOT(2); { Arr c(*a, A<T>(5)); check_value(c, a.n, 10, "copy"); vf_assert(c.get_allocator().id == 5, "allocator-extended copy uses the supplied allocator"); } a.destroy(); fin(); vf_reach("ctor_copy_alloc"); }
VF_HARNESS(ctor_move) { Slot a; make_state<1>(a, 10, 0); SLOT(2); { Arr c(std::move(*a)); check_value(c, a.n, 10, "move"); } a.destroy(); fin(); vf_reach("ctor_move"); }
VF_HARNESS(ctor_move_alloc) { Slot a; make_state<1>(a, 10, 0); SLOT(2); { Arr c(std::move(*a), A<T>(0)); check_value(c, a.n, 10, "move"); } a.destroy(); fin(); vf_reach("ctor_move_alloc"); }
VF_HARNESS(ctor_from_view) {   // array(const view), array(view&&), array(array_ref)
  Slot a; make_state<1>(a, 10, 0); SLOT(2);
  L form = vf_range(0, 2);
  if(form == 0) { auto const& ca = *a; Arr c(ca()); check_value(c, a.n, 10, "from const view"); }
  else if(form == 1) { Arr c((*a)()); check_value(c, a.n, 10, "from view"); }
  else { multi::array_ref<T, D> r(exts<D>(a.n), (*a).data_elements()); Arr c(r); check_value(c, a.n, 10, "from array_ref"); }
  a.destroy(); fin(); vf_reach("ctor_from_view");
}
#if DIM == 1
VF_HARNESS(ctor_iterator_pair) {   // array(first, last) / initializer list
  int x0 = vf_nondet_int(); int x1 = vf_nondet_int(); int x2 = vf_nondet_int();
  { T src[3] = {T(x0), T(x1), T(x2)}; L cnt = vf_range(0, 3); SLOT(0);
    L form = vf_range(0, 1);
    if(form == 0) { Arr a(src, src + cnt); vf_assert(a.size() == cnt, "size is last-first"); L k = vf_nondet_long(); vf_assume(0 <= k && k < cnt); vf_assert(val(a[k]) == (k == 0 ? x0 : (k == 1 ? x1 : x2)), "contents"); }
    else { Arr a = {T(x0), T(x1), T(x2)}; vf_assert(a.size() == 3 && val(a[0]) == x0 && val(a[1]) == x1 && val(a[2]) == x2, "initializer list contents"); } }
  fin(); vf_reach("ctor_iterator_pair");
}
#else
VF_HARNESS(ctor_iterator_pair) {   // array(first, last) over rows of another array / nested initializer list
  Slot a; make_state<1>(a, 10, 0); SLOT(2);
  L form = vf_range(0, 1);
  if(form == 0) { Arr c((*a).begin(), (*a).end()); check_value(c, a.n, 10, "from iterator pair of rows"); }
  else { int x0 = vf_nondet_int(); int x1 = vf_nondet_int(); Arr c = {{T(x0), T(x1)}, {T(x1), T(x0)}}; vf_assert(c.size() == 2 && val(c[0][0]) == x0 && val(c[0][1]) == x1 && val(c[1][0]) == x1 && val(c[1][1]) == x0, "nested initializer list contents"); }
  a.destroy(); fin(); vf_reach("ctor_iterator_pair");
}
#endif

#ifdef NOWRITE   // ELT=int: the arena is pre-filled with a pattern; sizing constructor and fill-less reextent must not write new elements
VF_HARNESS(sizing_ctor_does_not_write) {
  int* const ints = reinterpret_cast<int*>(g_arena);
#pragma unroll
  for(int c = 0; c < 2 * ARENA_CELLS; ++c) ints[c] = 1000 + c;
  L n[D]; draw_extents<D>(n, 1, NB); SLOT(0);
  { Arr a(exts<D>(n));
    L c = vf_range(0, 2 * ARENA_CELLS - 1);
    vf_assert(ints[c] == 1000 + c, "sizing constructor does not write to elements of a trivially default-constructible type"); }
  fin(); vf_reach("sizing_ctor_does_not_write");
}
VF_HARNESS(reextent_does_not_write_new_elements) {
  Slot a; make_state<1>(a, 10, 0);
  int* const ints = reinterpret_cast<int*>(g_arena);
#pragma unroll
  for(int c = 2 * SLOT_CELLS; c < 2 * ARENA_CELLS; ++c) ints[c] = 1000 + c;
  L m[D]; draw_extents<D>(m, 1, NB); SLOT(2);
  (*a).reextent(exts<D>(m));
  // a new-element position (outside the old extents) still holds the pattern of its cell
  L i[D]; draw_tuple<D>(m, i);
  bool inside = true;
#pragma unroll
  for(int k = 0; k < D; ++k) inside = inside && i[k] < a.n[k];
  bool same = true;
#pragma unroll
  for(int k = 0; k < D; ++k) same = same && a.n[k] == m[k];
  if(!inside && !same) {
    int const* p = &at<D>(*a, i);
    vf_assert(*p == 1000 + (p - ints), "reextent without a fill value does not write to new elements of a trivially default-constructible type");
  }
  a.destroy(); fin(); vf_reach("reextent_does_not_write_new_elements");
}
#endif
