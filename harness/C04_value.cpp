// C04: owning arrays have value semantics.  One operation from an ARBITRARY reachable pre-state (so histories are covered by
// induction: every operation's post-state is again a value of the model and is checked from every pre-state the generator produces).
// -DDIM=1|2, -DELT=int|Tr.  Contents are position-coded (base + flat position), so a value identifies the element it came from.
#include "own_state.hpp"
template<int KA> static void t_copy_construct() {
  Slot a; make_state<KA>(a, 10, 0); SLOT(4);
  { Arr c(*a);
    check_value(c, a.n, 10, "copy"); check_value(*a, a.n, 10, "source");
    check_independent(c, *a, a.n, 10, 10); }
  a.destroy(); check_all_released();
}
VF_HARNESS(copy_construct_k1) { t_copy_construct<1>(); vf_reach("copy_construct_k1"); }
VF_HARNESS(copy_construct_k2) { t_copy_construct<2>(); vf_reach("copy_construct_k2"); }
VF_HARNESS(copy_construct_k5) { t_copy_construct<5>(); vf_reach("copy_construct_k5"); }

template<int KB, int KA = 1> static void t_copy_assign() {   // over any prior state: empty, same/different extents, cleared, moved-from
  Slot a; make_state<KA>(a, 10, 0); SLOT(4);
  Slot b; make_state<KB>(b, 40, 2); SLOT(4);
  *b = *a;
  check_value(*b, a.n, 10, "assigned"); check_value(*a, a.n, 10, "source");
  check_independent(*b, *a, a.n, 10, 10);
  b.destroy(); a.destroy(); check_all_released();
}
#define X(K) VF_HARNESS(copy_assign_k##K) { t_copy_assign<K>(); vf_reach("copy_assign_k" #K); }
FOR_KINDS(X)
#undef X

VF_HARNESS(self_assign) {
  Slot a; make_state<1>(a, 10, 0); SLOT(4);
  T* const before = (*a).data_elements();
  Arr& alias = *a;
  *a = alias;
  check_value(*a, a.n, 10, "self");
  vf_assert((*a).data_elements() == before, "self-assignment keeps the storage");
  a.destroy(); check_all_released();
  vf_reach("self_assign");
}

VF_HARNESS(move_construct) {
  Slot a; make_state<1>(a, 10, 0); SLOT(4);
  T* const before = (*a).data_elements(); long const copies = g_ncopy, moves = g_nmove, allocs = g_nalloc;
  { Arr c(std::move(*a));
    check_value(c, a.n, 10, "moved-to");
    vf_assert(prod<D>(a.n) == 0 || c.data_elements() == before, "move construction takes over the source's storage");
    vf_assert(g_ncopy == copies && g_nmove == moves, "move construction copies or moves no element");
    vf_assert(g_nalloc == allocs, "move construction does not allocate");
    check_valid_empty(*a);
    SLOT(6); *a = c;                          // the moved-from array is assignable
    check_value(*a, a.n, 10, "reassigned"); }
  a.destroy(); check_all_released();
  vf_reach("move_construct");
}

template<int KB> static void t_move_assign() {
  Slot a; make_state<1>(a, 10, 0); SLOT(4);
  Slot b; make_state<KB>(b, 40, 2); SLOT(4);
  T* const before = (*a).data_elements(); long const copies = g_ncopy, moves = g_nmove, allocs = g_nalloc;
  *b = std::move(*a);
  check_value(*b, a.n, 10, "moved-to");
  vf_assert(prod<D>(a.n) == 0 || (*b).data_elements() == before, "move assignment takes over the source's storage");
  vf_assert(g_ncopy == copies && g_nmove == moves, "move assignment copies or moves no element");
  vf_assert(g_nalloc == allocs, "move assignment does not allocate");
  check_valid_empty(*a);
  SLOT(6); *a = *b; check_value(*a, a.n, 10, "moved-from reassigned");
  b.destroy(); a.destroy(); check_all_released();
}
#define X(K) VF_HARNESS(move_assign_k##K) { t_move_assign<K>(); vf_reach("move_assign_k" #K); }
FOR_KINDS(X)
#undef X

template<int KA, int KB> static void t_swap_arrays() {
  Slot a; make_state<KA>(a, 10, 0); SLOT(4);
  Slot b; make_state<KB>(b, 40, 2); SLOT(4);
  T* const pa = (*a).data_elements(); T* const pb = (*b).data_elements(); long const copies = g_ncopy, moves = g_nmove, allocs = g_nalloc;
  L form = vf_range(0, 1);
  if(form == 0) { swap(*a, *b); } else { (*a).swap(*b); }
  if(b.coded) check_value(*a, b.n, 40, "a has b's value"); else vf_assert(has_extents<D>(*a, b.n), "a has b's extents");
  if(a.coded) check_value(*b, a.n, 10, "b has a's value"); else vf_assert(has_extents<D>(*b, a.n), "b has a's extents");
  vf_assert((*a).data_elements() == pb && (*b).data_elements() == pa, "swap exchanges the storage");
  vf_assert(g_ncopy == copies && g_nmove == moves && g_nalloc == allocs, "swap copies no element and does not allocate");
  b.destroy(); a.destroy(); check_all_released();
}
VF_HARNESS(swap_arrays_k11) { t_swap_arrays<1, 1>(); vf_reach("swap_arrays_k11"); }
VF_HARNESS(swap_arrays_k10) { t_swap_arrays<1, 0>(); vf_reach("swap_arrays_k10"); }
VF_HARNESS(swap_arrays_k34) { t_swap_arrays<3, 4>(); vf_reach("swap_arrays_k34"); }
VF_HARNESS(swap_arrays_k42) { t_swap_arrays<4, 2>(); vf_reach("swap_arrays_k42"); }

// ---- from views
#ifndef VB
#define VB 3
#endif
static void assign_from_view_checks(Arr& b, L const* n, int const* src, L origin, L const* stride) {
  vf_assert(has_extents<D>(b, n), "extents equal the view's");
  if(prod<D>(n) > 0) {
    L i[D]; draw_tuple<D>(n, i);
    L a = origin;
#pragma unroll
    for(int k = 0; k < D; ++k) a += i[k] * stride[k];
    vf_assert(val(at<D>(b, i)) == src[a], "element equals the view's element at the same index tuple");
  }
}
template<class TT, int N, int Base> struct Coded { TT a[N]; constexpr Coded() : a{} { for(int i = 0; i < N; ++i) a[i] = static_cast<TT>(Base + i); } };
extern "C" { Coded<int, 32, 500> g_srcS = Coded<int, 32, 500>(); }
template<int E> struct LayV { static multi::layout_t<E> make(L const* n, L const* st) { return multi::layout_t<E>(LayV<E - 1>::make(n + 1, st + 1), st[0], 0, n[0] * st[0]); } };
template<> struct LayV<0> { static multi::layout_t<0> make(L const*, L const*) { return multi::layout_t<0>(multi::extensions_t<0>{}); } };

template<int KB> static void t_assign_from_view() {   // from a view of any layout (strided / transposed / sub-block = arbitrary strides and origin), over any prior state
  L n[D]; L st[D]; draw_extents<D>(n, 0, NB);
  L hull = 0;
#pragma unroll
  for(int k = 0; k < D; ++k) { st[k] = vf_range(1, VB); hull += (n[k] > 0 ? n[k] - 1 : 0) * st[k]; }
  L origin = vf_range(0, 31); vf_assume(origin + hull < 32);
  multi::subarray<int, D> v(LayV<D>::make(n, st), g_srcS.a + origin);
  Slot b; make_state<KB>(b, 40, 2); SLOT(4);
  L form = vf_range(0, 1);
  if(form == 0) { *b = v; } else { auto const& cv = v; *b = cv; }
  assign_from_view_checks(*b, n, g_srcS.a, origin, st);
  b.destroy(); check_all_released();
}
#define X(K) VF_HARNESS(assign_from_view_k##K) { t_assign_from_view<K>(); vf_reach("assign_from_view_k" #K); }
FOR_KINDS(X)
#undef X

VF_HARNESS(construct_from_view_and_decay) {   // array(view), +view, view.decay()
  L n[D]; L st[D]; draw_extents<D>(n, 0, NB);
  L hull = 0;
#pragma unroll
  for(int k = 0; k < D; ++k) { st[k] = vf_range(1, VB); hull += (n[k] > 0 ? n[k] - 1 : 0) * st[k]; }
  L origin = vf_range(0, 31); vf_assume(origin + hull < 32);
  multi::subarray<int, D> v(LayV<D>::make(n, st), g_srcS.a + origin);
  L form = vf_range(0, 1);
  SLOT(0);
  if(form == 0) { Arr c(v); assign_from_view_checks(c, n, g_srcS.a, origin, st); }
  else { multi::array<int, D, A<int>> c(v); SLOT(2); auto d = +c(); SLOT(4); auto e = c().decay();
    vf_assert(has_extents<D>(d, n) && has_extents<D>(e, n), "decay / unary plus keep the extents");
    if(prod<D>(n) > 0) { L i[D]; draw_tuple<D>(n, i); L a = origin;
#pragma unroll
      for(int k = 0; k < D; ++k) a += i[k] * st[k];
      vf_assert(at<D>(d, i) == g_srcS.a[a] && at<D>(e, i) == g_srcS.a[a], "decay / unary plus copy the elements");
      at<D>(d, i) = 7777; vf_assert(at<D>(c, i) == g_srcS.a[a], "the decayed copy shares no storage with its source"); } }
  check_all_released();
  vf_reach("construct_from_view_and_decay");
}

template<int KB> static void t_assign_from_convertible() {   // array<T> = array<long>
  L n[D]; draw_extents<D>(n, 0, NB);
  SLOT(1); multi::array<long, D, A<long>> al(exts<D>(n), 0L);
  { L ne = prod<D>(n); auto e = al.elements();
#pragma unroll
    for(int k = 0; k < NE; ++k) if(k < ne) e[k] = 70 + k; }
  Slot b; make_state<KB>(b, 40, 2); SLOT(4);
  *b = al;
  check_value(*b, n, 70, "converted");
  b.destroy();
}
VF_HARNESS(assign_from_convertible_k0) { t_assign_from_convertible<0>(); vf_reach("assign_from_convertible_k0"); }
VF_HARNESS(assign_from_convertible_k1) { t_assign_from_convertible<1>(); vf_reach("assign_from_convertible_k1"); }

#if DIM <= 2
template<int KB> static void t_assign_initializer_list() {   // nested initializer lists (fixed small shapes, symbolic values)
  int x0 = vf_nondet_int(); int x1 = vf_nondet_int(); int x2 = vf_nondet_int(); int x3 = vf_nondet_int(); int x4 = vf_nondet_int(); int x5 = vf_nondet_int();
  Slot b; make_state<KB>(b, 40, 2); SLOT(4);
#if DIM == 1
  *b = {T(x0), T(x1), T(x2)};
  vf_assert((*b).size() == 3 && val((*b)[0]) == x0 && val((*b)[1]) == x1 && val((*b)[2]) == x2, "1-D initializer list gives exactly the requested contents");
  (void)x3; (void)x4; (void)x5;
#else
  *b = {{T(x0), T(x1), T(x2)}, {T(x3), T(x4), T(x5)}};
  vf_assert((*b).size() == 2 && (*b).num_elements() == 6, "2-D initializer list gives the requested extents");
  vf_assert(val((*b)[0][0]) == x0 && val((*b)[0][1]) == x1 && val((*b)[0][2]) == x2 && val((*b)[1][0]) == x3 && val((*b)[1][1]) == x4 && val((*b)[1][2]) == x5, "2-D initializer list gives exactly the requested contents");
#endif
  SLOT(6); *b = {};
  check_valid_empty(*b);
  b.destroy(); check_all_released();
}
VF_HARNESS(assign_initializer_list_k0) { t_assign_initializer_list<0>(); vf_reach("assign_initializer_list_k0"); }
VF_HARNESS(assign_initializer_list_k1) { t_assign_initializer_list<1>(); vf_reach("assign_initializer_list_k1"); }
#endif
