// C11: conversions BETWEEN pointer types.  An iterator / array_ref over raw pointers is converted explicitly to one over a fancy pointer
// that is only EXPLICITLY constructible from T* (the library has separate explicit_cast / implicit_cast constructor overloads; the
// explicit ones are reached by no raw-pointer program).  The converted object must designate the same positions and the same layout.
// Compile with -DDIM=1..3 (without VF_FANCY: the source view is over raw pointers).
#include "spec.hpp"
#ifndef DIM
#define DIM 2
#endif
#ifndef FB
#define FB 2
#endif
extern "C" { ELEM g_mem[MEMSZ]; }
constexpr int D = DIM;
template<class T> struct xptr {   // random-access pointer, explicit from T*, implicit only for the const-adding conversion
  using element_type = T; using value_type = std::remove_cv_t<T>; using difference_type = std::ptrdiff_t; using pointer = T*; using reference = T&;
  using iterator_category = std::random_access_iterator_tag;
  template<class U> using rebind = xptr<U>;
  xptr() = default;
  xptr(std::nullptr_t) {}   // NOLINT
  explicit xptr(T* p) : p_(p) {}
  template<class U, std::enable_if_t<std::is_convertible_v<U*, T*> && !std::is_same_v<U, T>, int> = 0> xptr(xptr<U> const& o) : p_(o.p_) {}   // NOLINT
  reference operator*() const { return *p_; } T* operator->() const { return p_; } reference operator[](difference_type n) const { return p_[n]; }
  xptr& operator+=(difference_type n) { p_ += n; return *this; } xptr& operator-=(difference_type n) { p_ -= n; return *this; }
  xptr& operator++() { ++p_; return *this; } xptr& operator--() { --p_; return *this; }
  friend xptr operator+(xptr a, difference_type n) { a += n; return a; } friend xptr operator-(xptr a, difference_type n) { a -= n; return a; }
  friend difference_type operator-(xptr const& a, xptr const& b) { return a.p_ - b.p_; }
  friend bool operator==(xptr const& a, xptr const& b) { return a.p_ == b.p_; } friend bool operator!=(xptr const& a, xptr const& b) { return a.p_ != b.p_; }
  friend bool operator<(xptr const& a, xptr const& b) { return a.p_ < b.p_; }
  explicit operator bool() const { return p_ != nullptr; }
  T* p_ = nullptr;
};

VF_HARNESS(iterator_explicit_pointer_conversion) {
  Spec<D> s = arbitrary_spec<D>(1, FB);
  auto v = view_of<D>(s, g_mem);
  L const n = s.d[0].size;
  L p = vf_range(0, NB); vf_assume(p <= n);
  L k = vf_range(-NB, NB); vf_assume(0 <= p + k && p + k <= n);
  auto const it = v.begin() + p;
  using xit = multi::array_iterator<ELEM, D, xptr<ELEM>>;
  xit x{it};
  vf_assert(x.base().p_ == it.base(), "the converted iterator designates the same first element");
  vf_assert(x.stride() == it.stride(), "the converted iterator has the same stride");
  { xit y = x + k; auto jt = it + k; vf_assert(y.base().p_ == jt.base() && y - x == k, "moving the converted iterator by n reaches the position of it + n"); }
  { xit xe{v.end()}; vf_assert(xe - x == n - p, "distance to the converted end() is preserved"); }
  if(p < n) {
#if DIM == 1
    vf_assert(&*x == &*it, "dereferences to the same element");
#else
    auto&& a = *x; auto&& b = *it; vf_assert(a.base().p_ == b.base() && a.layout() == b.layout(), "dereferences to the same sub-view (base and layout)");
#endif
  }
  vf_reach("iterator_explicit_pointer_conversion");
}

#if DIM == 2
VF_HARNESS(array_ref_explicit_pointer_conversion) {   // array_ref<T, 2, T*>&& -> array_ref<T, 2, xptr<T>> (explicit): same extents, strides and elements
  L n0 = vf_range(0, NB); L n1 = vf_range(0, NB);
  multi::array_ref<ELEM, 2> r({n0, n1}, g_mem);
  multi::array_ref<ELEM, 2, xptr<ELEM>> x{std::move(r)};
  vf_assert(x.base().p_ == g_mem, "the converted reference has the same base");
  vf_assert(x.layout() == r.layout() && x.size() == r.size() && x.num_elements() == r.num_elements() && x.num_elements() == n0 * n1, "the converted reference has the same layout, size and element count");
  L i = vf_range(0, NB); L j = vf_range(0, NB); vf_assume(i < n0 && j < n1);
  vf_assert(&x[i][j] == g_mem + i * n1 + j, "and designates the same elements");
  vf_reach("array_ref_explicit_pointer_conversion");
}
#endif

VF_HARNESS(static_array_cast_to_fancy_pointer) {   // static_array_cast<T, xptr<T>>() of an arbitrary raw-pointer view: same base and layout, same element at a symbolic position
  Spec<D> s = arbitrary_spec<D>(1, FB);
  auto v = view_of<D>(s, g_mem);
  auto&& x = v.template static_array_cast<ELEM, xptr<ELEM>>();
  vf_assert(x.base().p_ == v.base(), "the cast view has the same base");
  vf_assert(x.layout() == v.layout(), "the cast view has the same layout (sizes, strides, index bases)");
  L p = vf_range(0, NB); vf_assume(p < s.d[0].size);
#if DIM == 1
  vf_assert(&x[s.d[0].first + p] == &v[s.d[0].first + p], "and designates the same elements");
#else
  { auto&& a = x[s.d[0].first + p]; auto&& b = v[s.d[0].first + p]; vf_assert(a.base().p_ == b.base() && a.layout() == b.layout(), "and designates the same sub-views"); }
#endif
  vf_reach("static_array_cast_to_fancy_pointer");
}
