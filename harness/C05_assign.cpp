// C05: assignment through views is deep and writes exactly the viewed elements.
// Destination = ARBITRARY injective view of g_dst, source = ARBITRARY view with the same extents over a separate storage g_src
// (own strides, origin, and - for the converting forms - another element type).  Storage contents are address-coded
// (g_dst[c] = 100 + c, g_src[c] = 1000 + c), so the value found in a cell identifies the element it was copied from.
// Oracle (whole-storage image, at a symbolic cell c): c designated by the destination at tuple i  =>  g_dst[c] == 1000 + addr_src(i);
// otherwise g_dst[c] == 100 + c.  Source unchanged.  The destination object still views the same elements (no rebinding).
#define VF_NO_GMEM
#define ELEM int
#include "spec.hpp"
#include <array>
#include <boost/multi/array.hpp>
#ifndef DIM
#define DIM 2
#endif
#ifndef FB
#define FB 0
#endif
constexpr int D = DIM;
#ifndef MEMSZ2
#define MEMSZ2 40
#endif
template<class T, int N, int Base> struct Coded { T a[N]; constexpr Coded() : a{} { for(int i = 0; i < N; ++i) a[i] = static_cast<T>(Base + i); } };
extern "C" { Coded<int, MEMSZ2, 100> g_dstS = Coded<int, MEMSZ2, 100>(); Coded<int, MEMSZ2, 1000> g_srcS = Coded<int, MEMSZ2, 1000>(); Coded<long, MEMSZ2, 1000> g_srcLS = Coded<long, MEMSZ2, 1000>(); }
#define g_dst g_dstS.a
#define g_src g_srcS.a
#define g_srcL g_srcLS.a

struct Pair { Spec<D> dst, src; };
static Pair arbitrary_pair(L minsize) {
  Pair p;
  p.dst = arbitrary_spec<D>(minsize, FB, MEMSZ2);
  vf_assume(spec_injective(p.dst));
  p.src = arbitrary_spec_like(p.dst, FB, MEMSZ2);
#pragma unroll
  for(int k = 0; k < D; ++k) p.src.d[k].first = p.dst.d[k].first;   // equal extents means equal index ranges
  return p;
}
// whole-image oracle at one symbolic cell
static void check_image(Pair const& p, const char* /*what*/) {
  L c = vf_nondet_long(); vf_assume(0 <= c && c < MEMSZ2);
  L i[D];
  if(spec_designates(p.dst, c, i)) { vf_assert(g_dst[c] == 1000 + spec_addr(p.src, i), "viewed cell holds the corresponding source element"); }
  else { vf_assert(g_dst[c] == 100 + c, "cell outside the destination view is untouched"); }
  L c2 = vf_nondet_long(); vf_assume(0 <= c2 && c2 < MEMSZ2);
  vf_assert(g_src[c2] == 1000 + c2 && g_srcL[c2] == 1000 + c2, "source storage unchanged");
}
template<class V> static void check_not_rebound(V const& v, Spec<D> const& s) {
  vf_assert(raw_of(v.base()) == g_dst + s.origin, "destination view still has its base (not rebound)");
  vf_assert(v.layout() == Lay<D>::make(s.d), "destination view still has its layout (not resized)");
}

VF_HARNESS(assign_view) {   // subarray& = subarray const&   /  = const view  /  temporary on the left  /  = std::move(view)
  Pair p = arbitrary_pair(0);
  auto v = view_of<D, int>(p.dst, g_dst); auto w = view_of<D, int>(p.src, g_src);
  L form = vf_range(0, 3);
  if(form == 0) { v = w; }
  else if(form == 1) { auto const& cw = w; v = cw; }
  else if(form == 2) { v() = w; }
  else { v = std::move(w); }
  check_image(p, "assign"); check_not_rebound(v, p.dst);
  vf_reach("assign_view");
}

VF_HARNESS(assign_elements) {   // through elements()
  Pair p = arbitrary_pair(0);
  auto v = view_of<D, int>(p.dst, g_dst); auto w = view_of<D, int>(p.src, g_src);
  v.elements() = w.elements();
  check_image(p, "elements"); check_not_rebound(v, p.dst);
  vf_reach("assign_elements");
}

VF_HARNESS(assign_convertible) {   // source of convertible element type (long -> int)
  Pair p = arbitrary_pair(0);
  auto v = view_of<D, int>(p.dst, g_dst); auto w = view_of<D, long>(p.src, g_srcL);
  v = w;
  check_image(p, "convert"); check_not_rebound(v, p.dst);
  vf_reach("assign_convertible");
}

VF_HARNESS(fill_value) {   // fill: every viewed element, nothing else
  Spec<D> s = arbitrary_spec<D>(0, FB, MEMSZ2); vf_assume(spec_injective(s));
  auto v = view_of<D, int>(s, g_dst);
  int x = vf_nondet_int();
#if DIM == 1
  v.fill(x);
#else
  std::fill(v.elements().begin(), v.elements().end(), x);
#endif
  L c = vf_nondet_long(); vf_assume(0 <= c && c < MEMSZ2);
  L i[D];
  if(spec_designates(s, c, i)) { vf_assert(g_dst[c] == x, "viewed cell holds the fill value"); }
  else { vf_assert(g_dst[c] == 100 + c, "cell outside the filled view is untouched"); }
  vf_reach("fill_value");
}

VF_HARNESS(swap_views) {   // swap of two views: both sides exchanged element-wise, nothing else touched
  Pair p = arbitrary_pair(0);
  vf_assume(spec_injective(p.src));
  auto v = view_of<D, int>(p.dst, g_dst); auto w = view_of<D, int>(p.src, g_src);
  L form = vf_range(0, 1);
  if(form == 0) { swap(v(), w()); } else { std::swap_ranges(v.begin(), v.end(), w.begin()); }
  L c = vf_nondet_long(); vf_assume(0 <= c && c < MEMSZ2);
  L i[D];
  if(spec_designates(p.dst, c, i)) { vf_assert(g_dst[c] == 1000 + spec_addr(p.src, i), "left cell holds the right element"); }
  else { vf_assert(g_dst[c] == 100 + c, "cell outside the left view is untouched"); }
  L c2 = vf_nondet_long(); vf_assume(0 <= c2 && c2 < MEMSZ2);
  L j[D];
  if(spec_designates(p.src, c2, j)) { vf_assert(g_src[c2] == 100 + spec_addr(p.dst, j), "right cell holds the left element"); }
  else { vf_assert(g_src[c2] == 1000 + c2, "cell outside the right view is untouched"); }
  vf_reach("swap_views");
}


#if DIM == 3
// D = 3, both sides GAP-FREE (compact) with independently permuted dimension orders: the layouts a "contiguous fast path" would accept.
// Strides are a permutation of the compact strides of the (common) extents; offsets symbolic.
static Spec<3> permuted_compact_spec(L const* n, L memsz) {
  Spec<3> s{}; L p = vf_range(0, 5);
  int const order[6][3] = {{0, 1, 2}, {0, 2, 1}, {1, 0, 2}, {1, 2, 0}, {2, 0, 1}, {2, 1, 0}};   // order[p][k] = the k-th fastest dimension
  L st = 1;
#pragma unroll
  for(int k = 0; k < 3; ++k) {
#pragma unroll
    for(int d = 0; d < 3; ++d) if(order[p][k] == d) { s.d[d].stride = st; st *= n[d]; }
  }
#pragma unroll
  for(int d = 0; d < 3; ++d) { s.d[d].size = n[d]; s.d[d].first = 0; }
  s.origin = vf_range(0, memsz - 1); vf_assume(s.origin + spec_hull(s) < memsz);
  return s;
}
VF_HARNESS(swap_assign_compact_permuted) {
  L n[3]; n[0] = vf_range(1, NB); n[1] = vf_range(1, NB); n[2] = vf_range(1, NB);
  Pair p; p.dst = permuted_compact_spec(n, MEMSZ2); p.src = permuted_compact_spec(n, MEMSZ2);
  auto v = view_of<D, int>(p.dst, g_dst); auto w = view_of<D, int>(p.src, g_src);
  L form = vf_range(0, 2);
  if(form == 0) { swap(v(), w()); } else if(form == 1) { v = w; } else { v = std::move(w); }
  L c = vf_nondet_long(); vf_assume(0 <= c && c < MEMSZ2);
  L i[D];
  if(spec_designates(p.dst, c, i)) { vf_assert(g_dst[c] == 1000 + spec_addr(p.src, i), "left / destination cell holds the corresponding right / source element"); }
  else { vf_assert(g_dst[c] == 100 + c, "cell outside the left view is untouched"); }
  L c2 = vf_nondet_long(); vf_assume(0 <= c2 && c2 < MEMSZ2);
  L j[D];
  if(form == 0 && spec_designates(p.src, c2, j)) { vf_assert(g_src[c2] == 100 + spec_addr(p.dst, j), "right cell holds the left element"); }
  else { vf_assert(g_src[c2] == 1000 + c2, "source / cell outside the right view is untouched"); }
  vf_reach("swap_assign_compact_permuted");
}
#endif

#if DIM == 1
VF_HARNESS(assign_range_1d) {   // from a range / iterator pair / initializer list (size 3)
  Spec<1> s = arbitrary_spec<1>(3, FB, MEMSZ2); vf_assume(s.d[0].size == 3);
  auto v = view_of<1, int>(s, g_dst);
  int a = vf_nondet_int(); int b = vf_nondet_int(); int c3 = vf_nondet_int();
  std::array<int, 3> rng = {a, b, c3};
  L form = vf_range(0, 2);
  if(form == 0) { v = rng; } else if(form == 1) { v.assign(rng.begin()); } else { v = {a, b, c3}; }
  L c = vf_nondet_long(); vf_assume(0 <= c && c < MEMSZ2);
  L i[1];
  if(spec_designates(s, c, i)) { vf_assert(g_dst[c] == rng[static_cast<std::size_t>(i[0] - s.d[0].first)], "viewed cell holds the corresponding range element"); }
  else { vf_assert(g_dst[c] == 100 + c, "cell outside the view is untouched"); }
  vf_reach("assign_range_1d");
}
#endif

#if DIM >= 2
VF_HARNESS(assign_rows_from_range) {   // D>1 view assigned from a range of rows (std::array of 1-D views is not available: use the view's own rows via iterator copy)
  Pair p = arbitrary_pair(1);
  auto v = view_of<D, int>(p.dst, g_dst); auto w = view_of<D, int>(p.src, g_src);
  std::copy(w.begin(), w.end(), v.begin());      // proxy rows assigned one by one
  check_image(p, "rows"); check_not_rebound(v, p.dst);
  vf_reach("assign_rows_from_range");
}
#endif

VF_HARNESS(array_ref_flat) {   // array_ref = array_ref: flat copy of contiguous storage of equal extents
  L n[D]; L ne = 1;
#pragma unroll
  for(int k = 0; k < D; ++k) { n[k] = vf_range(0, NB); ne *= n[k]; }
  L od = vf_range(0, MEMSZ2 - 1); L os = vf_range(0, MEMSZ2 - 1); vf_assume(od + ne <= MEMSZ2 && os + ne <= MEMSZ2);
  auto mk = [&](int* base) { return std::apply([&](auto... e) { return multi::array_ref<int, D, vf_ptr<int>>(multi::extensions_t<D>{e...}, vf_mkptr<int>(base - (base == g_dst + od ? od : os), MEMSZ2) + (base == g_dst + od ? od : os)); }, std::apply([](auto... x) { return std::make_tuple(multi::index_extension(x)...); }, [&] { if constexpr(D == 1) return std::make_tuple(n[0]); else if constexpr(D == 2) return std::make_tuple(n[0], n[1]); else return std::make_tuple(n[0], n[1], n[2]); }())); };
  auto A = mk(g_dst + od); auto B = mk(g_src + os);
  L form = vf_range(0, 1);
  if(form == 0) { A = B; } else { std::move(A) = B; }
  L c = vf_nondet_long(); vf_assume(0 <= c && c < MEMSZ2);
  if(od <= c && c < od + ne) { vf_assert(g_dst[c] == 1000 + os + (c - od), "flat copy: k-th element from k-th element"); }
  else { vf_assert(g_dst[c] == 100 + c, "cell outside the array_ref is untouched"); }
  vf_assert(raw_of(A.data_elements()) == g_dst + od && A.num_elements() == ne, "array_ref not rebound");
  vf_reach("array_ref_flat");
}

// ---- moving from a view: element_moved() moves from exactly the viewed elements
struct Mv { int v; int moved; Mv() : v(0), moved(0) {} Mv(Mv const& o) : v(o.v), moved(0) {} Mv(Mv&& o) noexcept : v(o.v), moved(0) { o.moved = 1; }
  Mv& operator=(Mv const& o) { v = o.v; return *this; } Mv& operator=(Mv&& o) noexcept { v = o.v; o.moved = 1; return *this; } };
extern "C" { Mv g_mv[MEMSZ2]; }
VF_HARNESS(element_moved_exactly_viewed) {
#pragma unroll
  for(int c = 0; c < MEMSZ2; ++c) { g_mv[c].v = 300 + c; g_mv[c].moved = 0; }
  Spec<D> s = arbitrary_spec<D>(1, 0, MEMSZ2); vf_assume(spec_injective(s));
  multi::subarray<Mv, D> v(Lay<D>::make(s.d), g_mv + s.origin);
  L form = vf_range(0, 1);
  L c = vf_nondet_long(); vf_assume(0 <= c && c < MEMSZ2);
  L i[D]; bool const viewed = spec_designates(s, c, i);
  if(form == 0) {
    multi::array<Mv, D> B(v.element_moved());          // construct from the element-moved view
    if(viewed) {
#if DIM == 1
      vf_assert(B[i[0]].v == 300 + c, "the constructed array holds the moved values");
#elif DIM == 2
      vf_assert(B[i[0]][i[1]].v == 300 + c, "the constructed array holds the moved values");
#else
      vf_assert(B[i[0]][i[1]][i[2]].v == 300 + c, "the constructed array holds the moved values");
#endif
    }
  } else {
    multi::array<Mv, D> B(v);                             // plain copy for comparison: nothing may be marked
    vf_assert(g_mv[c].moved == 0, "copying from a view moves from nothing");
  }
  if(form == 0) vf_assert((g_mv[c].moved == 1) == viewed, "element_moved moves from exactly the viewed elements");
  vf_assert(g_mv[c].v == 300 + c, "source values are still readable");
  vf_reach("element_moved_exactly_viewed");
}
