// C17 (library half, stub archive): array::serialize / view serialize / extensions_t::serialize / range::serialize driven by a
// symbolic archive SymAr that models the Boost/Cereal archive concept on a bounded tape of longs: operator& on an arithmetic value
// pushes/pops, on an object with a serialize member calls it, on the array_wrapper of its archive_traits loops over the elements.
// Boost.Serialization's and Cereal's own archives (iostream/locale/virtual dispatch, outside /repo) are NOT encoded.
#include "own_state.hpp"
#define TAPE 24
extern "C" { long g_tape[TAPE]; long g_tpos; long g_tlen; long g_tbad; }
template<bool Saving> struct SymAr;
template<class U> struct ArrW { U* p; std::size_t n; };
namespace boost { namespace multi {
template<bool S> struct archive_traits<SymAr<S>, void> {
  template<class U> static auto make_nvp(char const*, U&& v) noexcept -> U&& { return std::forward<U>(v); }
  template<class U> static auto make_array(U* p, std::size_t n) noexcept { return ArrW<U>{p, n}; }
};
}}
static long get_val(int x) { return x; }
static long get_val(long x) { return x; }
static long get_val(Tr const& x) { return val(x); }
static void set_val(int& x, long v) { x = static_cast<int>(v); }
static void set_val(long& x, long v) { x = v; }
static void set_val(Tr& x, long v) { x = Tr(static_cast<int>(v)); }
template<bool Saving> struct SymAr {
  template<class U> static constexpr bool is_leaf = std::is_arithmetic_v<U> || std::is_same_v<U, Tr>;
  template<class U> void leaf(U& u) {
    if constexpr(Saving) { if(g_tpos < TAPE) { g_tape[g_tpos] = get_val(u); } else { g_tbad = 1; } ++g_tpos; g_tlen = g_tpos; }
    else { if(g_tpos < g_tlen && g_tpos < TAPE) { set_val(const_cast<std::remove_const_t<U>&>(u), g_tape[g_tpos]); } else { g_tbad = 1; } ++g_tpos; }
  }
  template<class U> auto operator&(U&& u) -> SymAr& {
    using V = std::remove_cv_t<std::remove_reference_t<U>>;
    if constexpr(is_leaf<V>) { leaf(u); }
    else { const_cast<V&>(u).serialize(*this, 0U); }
    return *this;
  }
  template<class U> auto operator&(ArrW<U> w) -> SymAr& {
#pragma unroll
    for(int k = 0; k < NE + 2; ++k) if(static_cast<std::size_t>(k) < w.n) leaf(w.p[k]);
    return *this;
  }
};

template<int KA, int KB> static void t_array_roundtrip() {
  Slot a; make_state<KA>(a, 10, 0); Slot b; make_state<KB>(b, 40, 2); SLOT(4);
  g_tpos = 0; SymAr<true> out; out & *a;
  L const written = g_tpos;
  vf_assert(written == 2 * D + prod<D>(a.n) && g_tbad == 0, "save writes the extensions (first,last per dimension) and then every element once");
  g_tpos = 0; SymAr<false> in; in & *b;
  vf_assert(g_tpos == written && g_tbad == 0, "load consumes exactly what save produced");
  if(KA == 5) { vf_assert((*b).num_elements() == 0 && (*b).is_empty(), "loading an empty array yields an empty array"); }
  else { check_value(*b, a.n, 10, "loaded"); check_value(*a, a.n, 10, "saved array unchanged"); }
  b.destroy(); a.destroy(); check_all_released();
}
#define X(K) VF_HARNESS(array_roundtrip_k##K) { t_array_roundtrip<1, K>(); vf_reach("array_roundtrip_k" #K); }
FOR_KINDS(X)
#undef X
VF_HARNESS(array_roundtrip_empty_k1) { t_array_roundtrip<5, 1>(); vf_reach("array_roundtrip_empty_k1"); }
VF_HARNESS(array_roundtrip_empty_k0) { t_array_roundtrip<5, 0>(); vf_reach("array_roundtrip_empty_k0"); }

// ---- arrays over explicit index extensions [b_k, b_k + n_k): the extensions (bases included) are part of the value that round-trips
template<std::size_t... I> static multi::extensions_t<D> bexts_(L const* b, L const* n, std::index_sequence<I...>) { return multi::extensions_t<D>{multi::index_extension(b[I], b[I] + n[I])...}; }
template<std::size_t... I> static bool has_based_extents_(Arr const& a, L const* b, L const* n, std::index_sequence<I...>) {
  auto x = a.extensions(); using std::get; bool ok = true;
  ((ok = ok && get<I>(x).first() == b[I] && get<I>(x).size() == n[I]), ...);
  return ok;
}
template<std::size_t... I> static auto& at_based_(Arr& a, L const* b, L const* i, std::index_sequence<I...>) { return a(b[I] + i[I]...); }
template<int KB> static void t_based_roundtrip() {
  L b[D]; L n[D]; draw_extents<D>(n, 1, NB);
#pragma unroll
  for(int k = 0; k < D; ++k) b[k] = vf_range(-2, 2);
  { SLOT(0); Arr a(bexts_(b, n, std::make_index_sequence<D>{}), T(5));
    { L ne = prod<D>(n); auto e = a.elements();
#pragma unroll
      for(int k = 0; k < NE; ++k) if(k < ne) e[k] = T(10 + k); }
    Slot p; make_state<KB>(p, 40, 2); SLOT(4);
    g_tpos = 0; SymAr<true> out; out & a;
    L const written = g_tpos;
    g_tpos = 0; SymAr<false> in; in & *p;
    vf_assert(g_tpos == written && g_tbad == 0, "load consumes exactly what save produced");
    vf_assert(has_based_extents_(*p, b, n, std::make_index_sequence<D>{}), "the loaded array has the saved extensions, index bases included");
    L i[D]; draw_tuple<D>(n, i);
    vf_assert(val(at_based_(*p, b, i, std::make_index_sequence<D>{})) == 10 + flat<D>(n, i), "the loaded element at index tuple b + i is the saved one");
    vf_assert(*p == a, "the loaded array equals the saved one");
    p.destroy(); }
  check_all_released();
}
VF_HARNESS(based_roundtrip_k0) { t_based_roundtrip<0>(); vf_reach("based_roundtrip_k0"); }
VF_HARNESS(based_roundtrip_k1) { t_based_roundtrip<1>(); vf_reach("based_roundtrip_k1"); }

// ---- views: exactly their own elements, canonical order, nothing else touched
template<class TT, int N, int Base> struct Coded { TT a[N]; constexpr Coded() : a{} { for(int i = 0; i < N; ++i) a[i] = static_cast<TT>(Base + i); } };
extern "C" { Coded<int, 32, 500> g_srcS = Coded<int, 32, 500>(); Coded<int, 32, 700> g_dstS = Coded<int, 32, 700>(); }
template<int E> struct LayV { static multi::layout_t<E> make(L const* n, L const* st) { return multi::layout_t<E>(LayV<E - 1>::make(n + 1, st + 1), st[0], 0, n[0] * st[0]); } };
template<> struct LayV<0> { static multi::layout_t<0> make(L const*, L const*) { return multi::layout_t<0>(multi::extensions_t<0>{}); } };
VF_HARNESS(view_save_load) {
  L n[D]; L st[D]; L dt[D]; draw_extents<D>(n, 1, NB);
  L hs = 0, hd = 0;
#pragma unroll
  for(int k = 0; k < D; ++k) { st[k] = vf_range(1, 3); dt[k] = vf_range(1, 3); hs += (n[k] - 1) * st[k]; hd += (n[k] - 1) * dt[k]; }
  L os = vf_range(0, 31); L od = vf_range(0, 31); vf_assume(os + hs < 32 && od + hd < 32);
  // destination view must not overlap itself
  if(D == 2) vf_assume(dt[0] >= n[1] * dt[1] || dt[1] >= n[0] * dt[0]);
  multi::subarray<int, D> v(LayV<D>::make(n, st), g_srcS.a + os); multi::subarray<int, D> w(LayV<D>::make(n, dt), g_dstS.a + od);
  g_tpos = 0; SymAr<true> out; out & v;
  L const ne = prod<D>(n);
  vf_assert(g_tpos == ne && g_tbad == 0, "a view saves exactly its own elements (no extents, nothing else)");
  L k = vf_nondet_long(); vf_assume(0 <= k && k < ne);
  L idx[D]; L rem = k;
#pragma unroll
  for(int j = D - 1; j >= 0; --j) { idx[j] = rem % n[j]; rem = rem / n[j]; }
  L sa = os, da = od;
#pragma unroll
  for(int j = 0; j < D; ++j) { sa += idx[j] * st[j]; da += idx[j] * dt[j]; }
  vf_assert(g_tape[k] == 500 + sa, "the k-th saved value is the k-th element in canonical order");
  g_tpos = 0; SymAr<false> in; in & w;
  vf_assert(g_tpos == ne && g_tbad == 0, "loading into a view of equal extents consumes exactly those elements");
  vf_assert(g_dstS.a[da] == 500 + sa, "the k-th loaded element lands at the k-th index tuple of the destination view");
  L c = vf_range(0, 31);
  bool viewed = false;
#pragma unroll
  for(int t = 0; t < NE; ++t) { L i2[D]; int tt = t; bool valid = true; L a2 = od;
#pragma unroll
    for(int j = D - 1; j >= 0; --j) { i2[j] = tt % NB; tt /= NB; valid = valid && i2[j] < n[j]; a2 += i2[j] * dt[j]; }
    if(valid && a2 == c) viewed = true; }
  if(!viewed) vf_assert(g_dstS.a[c] == 700 + c, "loading into a view leaves every other element untouched");
  vf_assert(g_srcS.a[c] == 500 + c, "saving leaves the source untouched");
  vf_reach("view_save_load");
}
