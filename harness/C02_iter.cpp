// C02: random-access laws of begin()/end() iterators and of the flat elements() range, on an ARBITRARY valid view.
// Compile with -DDIM=1..3.  Positions p,q in [0,size], offsets n with p+n in [0,size] are symbolic.
#include "spec.hpp"
#ifndef DIM
#define DIM 2
#endif
#ifndef FB
#define FB 2
#endif
extern "C" { ELEM g_mem[MEMSZ]; }
constexpr int D = DIM;

// does the dereferenced iterator designate the same sub-view / element as v[idx] ?
#if DIM == 1
template<class R, class V> static bool same_as_index(R&& r, V&& v, L idx) { return &r == &v[idx]; }
#else
template<class R, class V> static bool same_as_index(R&& r, V&& v, L idx) { auto&& w = v[idx]; return r.base() == w.base() && r.layout() == w.layout(); }
#endif

VF_HARNESS(iter_distance_order) {
  Spec<D> s = arbitrary_spec<D>(0, FB);
  auto v = view_of<D>(s, g_mem);
  L const n = s.d[0].size;
  vf_assert(v.end() - v.begin() == n, "end() - begin() == size()");
  L p = vf_range(0, NB); L q = vf_range(0, NB); vf_assume(p <= n && q <= n);
  auto it = v.begin() + p; auto jt = v.begin() + q;
  vf_assert(jt - it == q - p, "(begin+q) - (begin+p) == q - p");
  vf_assert((it < jt) == (p < q), "it < jt iff jt - it > 0");
  vf_assert((it <= jt) == (p <= q) && (it > jt) == (p > q) && (it >= jt) == (p >= q), "<=, >, >= consistent with positions");
  vf_assert((it == jt) == (p == q) && (it != jt) == (p != q), "== and != consistent with positions");
  vf_assert((it == v.end()) == (p == n) && (it == v.begin()) == (p == 0), "begin/end are positions 0 and size()");
  typename decltype(v)::const_iterator cit = it;
  vf_assert(cit == it && !(cit != it), "const and mutable iterators to one position compare equal");
  vf_assert((v.cbegin() + p) == cit, "cbegin() + p is the same position");
  vf_reach("iter_distance_order");
}

VF_HARNESS(iter_movement) {
  Spec<D> s = arbitrary_spec<D>(1, FB);
  auto v = view_of<D>(s, g_mem);
  L const n = s.d[0].size;
  L p = vf_range(0, NB); vf_assume(p <= n);
  L k = vf_range(-NB, NB); vf_assume(0 <= p + k && p + k <= n);
  auto const it = v.begin() + p;
  { auto a = it + k; vf_assert(a - it == k, "(it + n) - it == n"); vf_assert((a - k) == it, "(it + n) - n == it"); vf_assert(a == v.begin() + (p + k), "it + n is position p + n"); }
  { auto a = it; a += k; vf_assert(a == it + k, "+= agrees with +"); a -= k; vf_assert(a == it, "-= undoes +="); }
  { auto a = it - (-k); vf_assert(a == it + k, "it - (-n) == it + n"); }
  if(p < n) { auto a = it; ++a; vf_assert(a == it + 1, "++ moves to the next position"); --a; vf_assert(a == it, "-- undoes ++");
              auto b = it; auto c = b++; vf_assert(c == it && b == it + 1, "post-increment"); }
  if(p > 0) { auto a = it; --a; vf_assert(a == it - 1, "-- moves to the previous position"); ++a; vf_assert(a == it, "++ undoes --"); }
  { auto a = v.begin(); a = it; vf_assert(a == it && a - v.begin() == p, "assigned iterator denotes the same position"); auto b(it); vf_assert(b == it, "copied iterator denotes the same position"); }
  vf_reach("iter_movement");
}

VF_HARNESS(iter_deref) {
  Spec<D> s = arbitrary_spec<D>(1, FB);
  auto v = view_of<D>(s, g_mem);
  L const n = s.d[0].size; L const f = s.d[0].first;
  L p = vf_range(0, NB); vf_assume(p < n);
  L k = vf_range(-NB, NB); vf_assume(0 <= p + k && p + k < n);
  auto const it = v.begin() + p;
  vf_assert(same_as_index(*it, v, f + p), "*(begin()+p) is v[first+p]");
  vf_assert(same_as_index(it[k], v, f + p + k), "it[n] is v[first+p+n]");
  vf_assert(same_as_index(*(it + k), v, f + p + k), "*(it+n) is v[first+p+n]");
  { auto a = it; a += k; vf_assert(same_as_index(*a, v, f + p + k), "dereference after += designates v[first+p+n]"); }
  { auto a = v.begin(); a = it; vf_assert(same_as_index(*a, v, f + p), "dereference of an assigned iterator designates v[first+p]"); }
  { auto a = v.end(); a -= (n - p); vf_assert(same_as_index(*a, v, f + p), "end() - (size-p) designates v[first+p]"); }
#if DIM == 1
  { ELEM volatile sink = *it; (void)sink; }
#else
  { // the sub-view reached through the iterator designates the prescribed elements
    Spec<D - 1> m{};
#pragma unroll
    for(int j = 1; j < D; ++j) m.d[j - 1] = s.d[j];
    m.origin = s.origin + p * s.d[0].stride;
    check_view<D - 1>(*it, m);
  }
#endif
  vf_reach("iter_deref");
}

// ---- elements(): k-th position is the element at the k-th index tuple in canonical order (last index fastest), whatever the strides
static L canonical_addr(Spec<D> const& s, L k) {
  L idx[D]; L rem = k;
#pragma unroll
  for(int j = D - 1; j >= 0; --j) { L sz = s.d[j].size; idx[j] = s.d[j].first + rem % sz; rem = rem / sz; }
  return spec_addr(s, idx);
}
#ifndef EFB
#define EFB 0
#endif
#ifndef ENB
#define ENB NB
#endif
static Spec<D> elements_spec(L minsize) {
  Spec<D> s = arbitrary_spec<D>(minsize, EFB);
#pragma unroll
  for(int j = 0; j < D; ++j) vf_assume(s.d[j].size <= ENB);
  return s;
}

VF_HARNESS(elements_shape) {   // empty shapes included
  Spec<D> s = elements_spec(0);
  auto v = view_of<D>(s, g_mem);
  L const ne = spec_num_elements(s);
  auto e = v.elements();
  vf_assert(e.size() == ne, "elements().size() == num_elements()");
  vf_assert(e.end() - e.begin() == ne, "elements().end() - elements().begin() == num_elements()");
  vf_assert((e.begin() == e.end()) == (ne == 0), "begin()==end() iff empty");
  vf_reach("elements_shape");
}

VF_HARNESS(elements_index) {
  Spec<D> s = elements_spec(1);
  auto v = view_of<D>(s, g_mem);
  L const ne = spec_num_elements(s);
  auto e = v.elements();
  L k = vf_nondet_long(); vf_assume(0 <= k && k < ne);
  L const want = canonical_addr(s, k);
  vf_assert(&e[k] - g_mem == want, "elements()[k] is the k-th element in canonical order");
  vf_assert(&*(e.begin() + k) - g_mem == want, "*(elements().begin()+k) is the k-th element");
  vf_assert(&e.begin()[k] - g_mem == want, "elements().begin()[k] is the k-th element");
  vf_assert(&e.front() - g_mem == canonical_addr(s, 0), "front() is the first element");
  vf_assert(&e.back() - g_mem == canonical_addr(s, ne - 1), "back() is the last element");
  vf_assert(&*(e.end() - (ne - k)) - g_mem == want, "*(end() - (size-k)) is the k-th element");
  ELEM volatile sink = e[k]; (void)sink;
  vf_reach("elements_index");
}

VF_HARNESS(value_categories) {   // begin()/end()/elements()/home() obtained from a const lvalue and from an rvalue designate what the mutable lvalue's do
  Spec<D> s = elements_spec(1);
  auto v = view_of<D>(s, g_mem);
  L const ne = spec_num_elements(s);
  L k = vf_nondet_long(); vf_assume(0 <= k && k < ne);
  L const want = canonical_addr(s, k);
  auto const& cv = v;
  vf_assert(&cv.elements()[k] - g_mem == want && &*(cv.elements().begin() + k) - g_mem == want && cv.elements().size() == ne, "const elements(): k-th element, size");
  vf_assert(&view_of<D>(s, g_mem).elements()[k] - g_mem == want && view_of<D>(s, g_mem).elements().size() == ne, "rvalue elements(): k-th element, size");
  { auto me = std::move(v).elements(); vf_assert(&*(me.begin() + k) - g_mem == want && me.end() - me.begin() == ne, "std::move(view).elements(): k-th element, distance"); }
  L i = vf_nondet_long(); vf_assume(0 <= i && i < s.d[0].size);
  vf_assert(cv.end() - cv.begin() == s.d[0].size && cv.cend() - cv.cbegin() == s.d[0].size, "const begin()/end() and cbegin()/cend() span the leading extent");
  { auto it = cv.begin() + i; auto mit = v.begin() + i; auto rit = view_of<D>(s, g_mem).begin() + i;
#if DIM == 1
    vf_assert(&*it == &*mit && &*rit == &*mit, "const / rvalue begin()+i designate the element the mutable one does");
#else
    vf_assert((*it).base() == (*mit).base() && (*it).layout() == (*mit).layout() && (*rit).base() == (*mit).base() && (*rit).layout() == (*mit).layout(), "const / rvalue begin()+i designate the sub-view the mutable one does");
#endif
  }
  vf_reach("value_categories");
}

VF_HARNESS(elements_movement) {   // the element designated after each kind of movement
  Spec<D> s = elements_spec(1);
  auto v = view_of<D>(s, g_mem);
  L const ne = spec_num_elements(s);
  auto e = v.elements();
  L p = vf_nondet_long(); vf_assume(0 <= p && p < ne);
  L k = vf_nondet_long(); vf_assume(-ne <= k && k <= ne && 0 <= p + k && p + k < ne);
  auto const it = e.begin() + p;
  vf_assert(it - e.begin() == p && e.end() - it == ne - p, "distances from begin and to end");
  { auto a = it; a += k; vf_assert(&*a - g_mem == canonical_addr(s, p + k), "dereference after += n"); vf_assert(a - it == k, "(it += n) - it == n"); }
  { auto a = it; a -= -k; vf_assert(&*a - g_mem == canonical_addr(s, p + k), "dereference after -= (-n)"); vf_assert(a == it + k, "-= agrees with +"); }
  { auto a = it + k; vf_assert(&*a - g_mem == canonical_addr(s, p + k), "dereference of it + n"); vf_assert((a - k) == it && &*(a - k) - g_mem == canonical_addr(s, p), "(it + n) - n is it, and designates the same element"); }
  { auto a = it - (-k); vf_assert(&*a - g_mem == canonical_addr(s, p + k), "dereference of it - (-n)"); }
  vf_assert(&it[k] - g_mem == canonical_addr(s, p + k), "it[n] is *(it+n)");
  if(p + 1 < ne) { auto a = it; ++a; vf_assert(&*a - g_mem == canonical_addr(s, p + 1), "dereference after ++"); --a; vf_assert(a == it && &*a - g_mem == canonical_addr(s, p), "-- undoes ++"); }
  if(p > 0) { auto a = it; --a; vf_assert(&*a - g_mem == canonical_addr(s, p - 1), "dereference after --"); ++a; vf_assert(a == it && &*a - g_mem == canonical_addr(s, p), "++ undoes --"); }
  if(p == ne - 1) {   // reach end() by ++, then move back: the position, not a wrapped index tuple, must drive the movement
    auto a = it; ++a; vf_assert(a == e.end(), "++ from the last element reaches end()");
    L m = vf_nondet_long(); vf_assume(1 <= m && m <= ne);
    auto b = a; b -= m; vf_assert(&*b - g_mem == canonical_addr(s, ne - m), "dereference after ++ to end() then -= m");
    vf_assert(&*(a - m) - g_mem == canonical_addr(s, ne - m) && &a[-m] - g_mem == canonical_addr(s, ne - m), "end() reached by ++: (it - m) and it[-m] designate the (size-m)-th element");
    auto c = a; --c; vf_assert(&*c - g_mem == canonical_addr(s, ne - 1), "-- from end() reached by ++ designates the last element");
  }
  { auto a = e.begin(); a = it; vf_assert(a == it && &*a - g_mem == canonical_addr(s, p), "assigned iterator designates the same element"); auto b(it); vf_assert(b == it && &*b - g_mem == canonical_addr(s, p), "copied iterator designates the same element"); }
  { L q = vf_nondet_long(); vf_assume(0 <= q && q <= ne); auto jt = e.begin() + q; vf_assert(((it < jt) != 0) == (p < q) && (it == jt) == (p == q) && (it != jt) == (p != q), "order and equality follow positions"); }
  { typename decltype(e)::const_iterator cit = it; vf_assert(&*cit - g_mem == canonical_addr(s, p), "const_iterator designates the same element"); }
  vf_reach("elements_movement");
}
