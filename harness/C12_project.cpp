// C12: projection views transform, cast or reinterpret exactly element by element.
// Source = ARBITRARY zero-based view (symbolic extents/strides/origin) over a storage of E{int a; int b;} with address-coded contents
// (a = 100+c, b = 200+c for cell c).  Because the source is arbitrary, "composes with the view algebra BEFORE the cast" is covered by
// C01's induction; "AFTER" follows from the result being a valid view: its layout and base are compared with the specification.
#define VF_NO_GMEM
#include "spec.hpp"
#include <boost/multi/array.hpp>
#ifndef DIM
#define DIM 2
#endif
constexpr int D = DIM;
#ifndef MEMSZ2
#define MEMSZ2 32
#endif
struct E { int a; int b; };
struct F { int x; int y; };
struct CodedE { E m[MEMSZ2]; constexpr CodedE() : m{} { for(int i = 0; i < MEMSZ2; ++i) { m[i].a = 100 + i; m[i].b = 200 + i; } } };
extern "C" { CodedE g_eS = CodedE(); }
#define g_e g_eS.m

static Spec<D> src_spec(L minsize) { return arbitrary_spec<D>(minsize, 0, MEMSZ2); }
template<class V> static bool same_sizes(V const& v, Spec<D> const& s) {
  L sz[D]; tuple_to_array_(v.sizes(), sz, std::make_index_sequence<D>{});
  bool ok = true;
#pragma unroll
  for(int k = 0; k < D; ++k) ok = ok && sz[k] == s.d[k].size;
  return ok;
}

VF_HARNESS(element_transformed_value) {   // lazy: f applied to the source element at the time of access
  Spec<D> s = src_spec(1);
  auto const v = view_of<D, E>(s, g_e);
  auto t = v.element_transformed([](E const& e) { return e.a + 1; });
  vf_assert(same_sizes(t, s) && t.num_elements() == spec_num_elements(s), "element_transformed keeps the extents");
  L i[D]; arbitrary_index(s, i); L c = spec_addr(s, i);
  vf_assert(elem_brackets(t, i) == 100 + c + 1 && elem_paren(t, i) == 100 + c + 1, "element equals f(source element) at the same index");
  int x = vf_nondet_int(); vf_assume(-1000 <= x && x <= 1000);
  g_e[c].a = x;
  vf_assert(elem_brackets(t, i) == x + 1, "f is evaluated at the time of access (lazy view)");
  vf_assert(*(t.elements().begin() + 0) == g_e[spec_addr(s, [&] { static L z[D]; for(int k = 0; k < D; ++k) z[k] = 0; return z; }())].a + 1, "flat range of the transformed view starts at the first element");
  vf_reach("element_transformed_value");
}
VF_HARNESS(element_transformed_reference) {   // f yields a reference: writes through
  Spec<D> s = src_spec(1);
  auto v = view_of<D, E>(s, g_e);
  auto t = v.element_transformed([](E& e) -> int& { return e.b; });
  L i[D]; arbitrary_index(s, i); L c = spec_addr(s, i);
  vf_assert(&elem_brackets(t, i) == &g_e[c].b, "reference-returning f designates the member of the source element");
  int x = vf_nondet_int();
  elem_brackets(t, i) = x;
  vf_assert(g_e[c].b == x && g_e[c].a == 100 + c, "a write through the transformed view reaches exactly the source element");
  { auto rt = v().element_transformed([](E& e) -> int& { return e.b; });    // the && overload
    vf_assert(same_sizes(rt, s) && &elem_brackets(rt, i) == &g_e[c].b, "element_transformed on an rvalue view: extents kept, same elements designated"); }
  vf_reach("element_transformed_reference");
}
VF_HARNESS(member_cast_designates_member) {
  Spec<D> s = src_spec(1);
  auto v = view_of<D, E>(s, g_e);
  auto m = v.member_cast<int>(&E::b);
  vf_assert(same_sizes(m, s), "member_cast keeps the extents");
  Spec<D> ms = s;
#pragma unroll
  for(int k = 0; k < D; ++k) ms.d[k].stride = s.d[k].stride * 2;   // in units of int
  vf_assert(m.layout() == Lay<D>::make(ms.d) && m.base() == &g_e[s.origin].b, "member_cast yields the view with strides scaled by sizeof(E)/sizeof(int) based at the member of the first element");
  L i[D]; arbitrary_index(s, i); L c = spec_addr(s, i);
  vf_assert(&elem_brackets(m, i) == &g_e[c].b && &elem_paren(m, i) == &g_e[c].b, "member_cast designates exactly the named member of each element");
  auto const& cv = v; auto cm = cv.member_cast<int>(&E::a);
  vf_assert(&elem_brackets(cm, i) == &g_e[c].a, "member_cast on a const view designates the member");
  { auto rm = v().member_cast<int>(&E::b); auto mm = std::move(v).member_cast<int>(&E::b);   // the && overload
    vf_assert(rm.layout() == m.layout() && rm.base() == m.base() && mm.layout() == m.layout() && mm.base() == m.base(), "member_cast on an rvalue view gives the same view"); }
  vf_reach("member_cast_designates_member");
}
VF_HARNESS(reinterpret_in_place) {   // reinterpret_array_cast<U>(): each element reinterpreted in place; const/as_const/static casts keep identity
  Spec<D> s = src_spec(1);
  auto v = view_of<D, E>(s, g_e);
  auto r = v.reinterpret_array_cast<F>();
  vf_assert(same_sizes(r, s) && r.layout() == v.layout(), "reinterpret_array_cast<U>() keeps extents and layout (same element size)");
  L i[D]; arbitrary_index(s, i); L c = spec_addr(s, i);
  vf_assert(reinterpret_cast<char const*>(&elem_brackets(r, i)) == reinterpret_cast<char const*>(&g_e[c]) && elem_brackets(r, i).y == 200 + c, "each element is reinterpreted in place");
  { auto const& cv2 = v;   // the const overloads are separate code (the 1-D one builds its layout by hand)
    auto cr = cv2.reinterpret_array_cast<F>();
    vf_assert(same_sizes(cr, s) && cr.layout() == v.layout() && cr.num_elements() == spec_num_elements(s), "const reinterpret_array_cast<U>() keeps extents and layout");
    vf_assert(reinterpret_cast<char const*>(&elem_brackets(cr, i)) == reinterpret_cast<char const*>(&g_e[c]), "const reinterpret_array_cast<U>() reinterprets each element in place");
    auto crl = cv2.reinterpret_array_cast<int>();   // smaller target type: sizeof(E)/sizeof(int) = 2, strides scale by 2
    Spec<D> ms = s;
#pragma unroll
    for(int k = 0; k < D; ++k) ms.d[k].stride = s.d[k].stride * 2;
    vf_assert(same_sizes(crl, s) && crl.layout() == Lay<D>::make(ms.d), "reinterpret_array_cast to a smaller type keeps the extents and scales the strides");
    vf_assert(reinterpret_cast<char const*>(&elem_brackets(crl, i)) == reinterpret_cast<char const*>(&g_e[c]), "and designates the first bytes of each element"); }
  auto rl = v.reinterpret_array_cast<long>();
  vf_assert(reinterpret_cast<char const*>(&elem_brackets(rl, i)) == reinterpret_cast<char const*>(&g_e[c]), "reinterpretation as a scalar of the same size designates the same bytes");
  auto const& cv = v;
#if DIM >= 2   // the 1-D specialisation has neither as_const() nor const_array_cast()
  vf_assert(&elem_brackets(cv.as_const(), i) == &g_e[c] && same_sizes(cv.as_const(), s), "as_const keeps extents and element identity");
  vf_assert(&elem_brackets(cv.const_array_cast(), i) == &g_e[c], "const_array_cast keeps element identity");
#else
  (void)cv;
#endif
  vf_assert(&elem_brackets(v.static_array_cast<E const>(), i) == &g_e[c], "static_array_cast keeps element identity");
  vf_reach("reinterpret_in_place");
}
template<class V, std::size_t... I> static auto& at_plus(V&& v, L const* i, L j, std::index_sequence<I...>) { return v(i[I]..., j); }
VF_HARNESS(casts_on_rebased) {   // the casts that do not scale the layout, on a source with NON-ZERO index bases: same extensions, same elements
  Spec<D> s = arbitrary_spec<D>(1, 2, MEMSZ2);
  auto v = view_of<D, E>(s, g_e); auto const& cv = v;
  L i[D]; arbitrary_index(s, i); L c = spec_addr(s, i);
  vf_assert(&elem_brackets(v.static_array_cast<E const>(), i) == &g_e[c] && v.static_array_cast<E const>().layout() == v.layout(), "static_array_cast keeps layout and element identity");
  // (reinterpret_array_cast and member_cast go through layout_t::scale, which asserts a zero offset: re-based sources are outside their domain)
  { auto t = cv.element_transformed([](E const& e) { return e.a + 1; });
    vf_assert(elem_brackets(t, i) == 100 + c + 1, "element_transformed of a re-based view: f(source element) at the same index tuple"); }
#if DIM >= 2
  vf_assert(&elem_brackets(cv.as_const(), i) == &g_e[c] && cv.as_const().layout() == v.layout(), "as_const keeps layout and element identity");
  vf_assert(&elem_brackets(cv.const_array_cast(), i) == &g_e[c] && cv.const_array_cast().layout() == v.layout(), "const_array_cast keeps layout and element identity");
#endif
  vf_reach("casts_on_rebased");
}
VF_HARNESS(reinterpret_trailing_dimension) {   // reinterpret_array_cast<U>(n): a trailing dimension of size n over each element's bytes
  Spec<D> s = src_spec(1);
  auto v = view_of<D, E>(s, g_e);
  { auto const& cv2 = v; auto cr2 = cv2.reinterpret_array_cast<int>(2); L szc[D + 1]; tuple_to_array_(cr2.sizes(), szc, std::make_index_sequence<D + 1>{});
    bool okc = szc[D] == 2;
#pragma unroll
    for(int k = 0; k < D; ++k) okc = okc && szc[k] == s.d[k].size;
    vf_assert(okc, "const reinterpret_array_cast<U>(n) keeps the extents and adds a trailing dimension of size n"); }
  auto r = v.reinterpret_array_cast<int>(2);
  { L sz[D + 1]; tuple_to_array_(r.sizes(), sz, std::make_index_sequence<D + 1>{});
    bool ok = sz[D] == 2;
#pragma unroll
    for(int k = 0; k < D; ++k) ok = ok && sz[k] == s.d[k].size;
    vf_assert(ok, "reinterpret_array_cast<U>(n) keeps the extents and adds a trailing dimension of size n"); }
  L i[D]; arbitrary_index(s, i); L c = spec_addr(s, i); L j = vf_range(0, 1);
  vf_assert(&at_plus(r, i, j, std::make_index_sequence<D>{}) == reinterpret_cast<int const*>(&g_e[c]) + j, "trailing index j designates the j-th U inside the element");
  vf_assert(at_plus(r, i, j, std::make_index_sequence<D>{}) == (j == 0 ? 100 + c : 200 + c), "and reads its value");
  { auto rr = v().reinterpret_array_cast<int>(2);       // the && overload (a temporary view)
    L sz[D + 1]; tuple_to_array_(rr.sizes(), sz, std::make_index_sequence<D + 1>{});
    bool ok = sz[D] == 2;
#pragma unroll
    for(int k = 0; k < D; ++k) ok = ok && sz[k] == s.d[k].size;
    vf_assert(ok, "rvalue reinterpret_array_cast<U>(n) keeps the extents and adds a trailing dimension of size n");
    vf_assert(&at_plus(rr, i, j, std::make_index_sequence<D>{}) == reinterpret_cast<int const*>(&g_e[c]) + j, "rvalue form: trailing index j designates the j-th U inside the element");
    auto rm = std::move(v).reinterpret_array_cast<int>(2);
    vf_assert(rm.layout() == rr.layout() && rm.base() == rr.base(), "std::move(view) form gives the same view"); }
  vf_reach("reinterpret_trailing_dimension");
}
VF_HARNESS(construct_array_from_projection) {   // array<long,D>(projection view) converts element by element, same extents
  Spec<D> s = src_spec(0);
  auto const v = view_of<D, E>(s, g_e);
  multi::array<long, D> A(v.element_transformed([](E const& e) { return e.a; }));
  multi::array<int, D> B(v.member_cast<int>(&E::b));
  L ne = spec_num_elements(s);
  vf_assert(A.num_elements() == ne && B.num_elements() == ne, "constructed arrays have the source's number of elements");
  if(ne > 0) {
    vf_assert(same_sizes(A, s) && same_sizes(B, s), "constructed arrays have the source's extents");
    L i[D]; arbitrary_index(s, i); L c = spec_addr(s, i);
    vf_assert(elem_brackets(A, i) == 100 + c && elem_brackets(B, i) == 200 + c, "elements are converted one by one at the same index");
  }
  vf_reach("construct_array_from_projection");
}
