// C03: standard algorithms on array/view ranges act as on independent values.
// Range under test (-DRANGE): 1 = begin()/end() of an ARBITRARY 1-D view (symbolic size, stride, origin: rows, strided columns, sub-ranges);
//                             2 = elements().begin()/end() of an ARBITRARY 2-D view (any strides: transposed, sub-blocks, strided).
// Storage contents are symbolic in {0..3} (duplicates occur).  The SAME libstdc++ algorithm instantiation is applied to a plain local
// array holding the logical contents; afterwards the logical contents, the returned position and every cell outside the view are compared.
// For algorithms whose result is not unique (partition, nth_element, partial_sort) the characterising post-condition + multiset are compared.
// libstdc++'s large-range branches (__introsort_loop for > 16 elements, merge-based stable sort for >= 15) are dead for these sizes and
// stubbed out (--stub-fn), see DESIGN C03.
#define VF_NO_GMEM
#define ELEM int
#include "spec.hpp"
#include <boost/multi/array.hpp>
#include <algorithm>
#include <numeric>
#ifndef RANGE
#define RANGE 1
#endif
#ifndef MEMSZ2
#define MEMSZ2 16
#endif
#if RANGE == 1
constexpr int D = 1; constexpr int NMAX = NB;
#else
constexpr int D = 2; constexpr int NMAX = NB * NB;
#endif
extern "C" { int g_m[MEMSZ2]; int g_old[MEMSZ2]; int g_o[MEMSZ2]; int g_oold[MEMSZ2]; }

struct Env { Spec<D> s; L n; int ref[NMAX]; };
static L addr_of(Spec<D> const& s, L k) {
  L idx[D]; L rem = k;
#pragma unroll
  for(int j = D - 1; j >= 0; --j) { L sz = s.d[j].size; idx[j] = rem % sz; rem = rem / sz; }
  return spec_addr(s, idx);
}
static Env setup(L minsize, int* mem = g_m, int* old = g_old) {
  Env e;
#pragma unroll
  for(int c = 0; c < MEMSZ2; ++c) { int x = vf_nondet_int(); vf_assume(0 <= x && x <= 3); mem[c] = x; old[c] = x; }
  e.s = arbitrary_spec<D>(minsize, 0, MEMSZ2); vf_assume(spec_injective(e.s));
  e.n = spec_num_elements(e.s);
#pragma unroll
  for(int k = 0; k < NMAX; ++k) e.ref[k] = k < e.n ? mem[addr_of(e.s, k)] : -1;
  return e;
}
static void check_contents(Env const& e, int const* mem = g_m, int const* old = g_old) {
  bool same = true;
#pragma unroll
  for(int k = 0; k < NMAX; ++k) if(k < e.n) same = same && mem[addr_of(e.s, k)] == e.ref[k];
  vf_assert(same, "viewed elements equal the result on independent values");
  L c = vf_range(0, MEMSZ2 - 1); L i[D];
  if(!spec_designates(e.s, c, i)) vf_assert(mem[c] == old[c], "elements outside the view are left unchanged");
}
static void check_multiset(Env const& e, int const* mem = g_m, int const* old = g_old) {
  bool ok = true;
#pragma unroll
  for(int val = 0; val <= 3; ++val) { int a = 0, b = 0;
#pragma unroll
    for(int k = 0; k < NMAX; ++k) if(k < e.n) { a += mem[addr_of(e.s, k)] == val; b += old[addr_of(e.s, k)] == val; }
    ok = ok && a == b; }
  vf_assert(ok, "the viewed elements are a permutation of the original ones");
  L c = vf_range(0, MEMSZ2 - 1); L i[D];
  if(!spec_designates(e.s, c, i)) vf_assert(mem[c] == old[c], "elements outside the view are left unchanged");
}
static int at(Env const& e, L k, int const* mem = g_m) { return mem[addr_of(e.s, k)]; }
#if RANGE == 1
#define RANGE_OF(e, mem) auto v_ = view_of<1, int>((e).s, mem, MEMSZ2); auto first = v_.begin(); auto last = v_.end()
#define CRANGE_OF(e, mem) auto const v_ = view_of<1, int>((e).s, mem, MEMSZ2); auto first = v_.begin(); auto last = v_.end()
#else
#define RANGE_OF(e, mem) auto v_ = view_of<2, int>((e).s, mem, MEMSZ2); auto r_ = v_.elements(); auto first = r_.begin(); auto last = r_.end()
#define CRANGE_OF(e, mem) auto const v_ = view_of<2, int>((e).s, mem, MEMSZ2); auto first = v_.elements().begin(); auto last = v_.elements().end()
#endif

VF_HARNESS(sort) { Env e = setup(0); { RANGE_OF(e, g_m); std::sort(first, last); } std::sort(e.ref, e.ref + e.n); check_contents(e); vf_reach("sort"); }
VF_HARNESS(stable_sort) { Env e = setup(0); { RANGE_OF(e, g_m); std::stable_sort(first, last, [](int a, int b) { return (a >> 1) < (b >> 1); }); } std::stable_sort(e.ref, e.ref + e.n, [](int a, int b) { return (a >> 1) < (b >> 1); }); check_contents(e); vf_reach("stable_sort"); }
VF_HARNESS(partial_sort) {
  Env e = setup(1); L mid = vf_nondet_long(); vf_assume(0 <= mid && mid <= e.n);
  { RANGE_OF(e, g_m); std::partial_sort(first, first + mid, last); }
  std::sort(e.ref, e.ref + e.n);
  bool ok = true;
#pragma unroll
  for(int k = 0; k < NMAX; ++k) if(k < mid) ok = ok && at(e, k) == e.ref[k];
  vf_assert(ok, "the first middle-first positions hold the smallest elements in order");
  check_multiset(e); vf_reach("partial_sort");
}
VF_HARNESS(nth_element) {
  Env e = setup(1); L nth = vf_nondet_long(); vf_assume(0 <= nth && nth < e.n);
  { RANGE_OF(e, g_m); std::nth_element(first, first + nth, last); }
  std::sort(e.ref, e.ref + e.n);
  bool ok = at(e, nth) == e.ref[nth];
#pragma unroll
  for(int k = 0; k < NMAX; ++k) if(k < e.n) ok = ok && (k < nth ? at(e, k) <= at(e, nth) : at(e, k) >= at(e, nth));
  vf_assert(ok, "the nth position holds the nth smallest element and partitions the range");
  check_multiset(e); vf_reach("nth_element");
}
VF_HARNESS(rotate) {
  Env e = setup(1); L mid = vf_nondet_long(); vf_assume(0 <= mid && mid <= e.n); L pos;
  { RANGE_OF(e, g_m); pos = std::rotate(first, first + mid, last) - first; }
  L rpos = std::rotate(e.ref, e.ref + mid, e.ref + e.n) - e.ref;
  vf_assert(pos == rpos, "returns the same position"); check_contents(e); vf_reach("rotate");
}
VF_HARNESS(reverse) { Env e = setup(0); { RANGE_OF(e, g_m); std::reverse(first, last); } std::reverse(e.ref, e.ref + e.n); check_contents(e); vf_reach("reverse"); }
VF_HARNESS(partition) {
  Env e = setup(0); L pos;
  { RANGE_OF(e, g_m); pos = std::partition(first, last, [](int x) { return x < 2; }) - first; }
  L cnt = 0; bool ok = true;
#pragma unroll
  for(int k = 0; k < NMAX; ++k) if(k < e.n) cnt += e.ref[k] < 2;
#pragma unroll
  for(int k = 0; k < NMAX; ++k) if(k < e.n) ok = ok && ((k < pos) == (at(e, k) < 2));
  vf_assert(pos == cnt && ok, "returns the partition point; elements before it satisfy the predicate, the others do not");
  check_multiset(e); vf_reach("partition");
}
VF_HARNESS(unique) {
  Env e = setup(0); L pos;
  { RANGE_OF(e, g_m); pos = std::unique(first, last) - first; }
  L rpos = std::unique(e.ref, e.ref + e.n) - e.ref;
  bool ok = pos == rpos;
#pragma unroll
  for(int k = 0; k < NMAX; ++k) if(k < rpos) ok = ok && at(e, k) == e.ref[k];
  vf_assert(ok, "same new end and same retained prefix");
  L c = vf_range(0, MEMSZ2 - 1); L i[D]; if(!spec_designates(e.s, c, i)) vf_assert(g_m[c] == g_old[c], "elements outside the view are left unchanged");
  vf_reach("unique");
}
VF_HARNESS(remove) {
  Env e = setup(0); L pos;
  { RANGE_OF(e, g_m); pos = std::remove(first, last, 1) - first; }
  L rpos = std::remove(e.ref, e.ref + e.n, 1) - e.ref;
  bool ok = pos == rpos;
#pragma unroll
  for(int k = 0; k < NMAX; ++k) if(k < rpos) ok = ok && at(e, k) == e.ref[k];
  vf_assert(ok, "same new end and same retained prefix");
  L c = vf_range(0, MEMSZ2 - 1); L i[D]; if(!spec_designates(e.s, c, i)) vf_assert(g_m[c] == g_old[c], "elements outside the view are left unchanged");
  vf_reach("remove");
}
VF_HARNESS(shift_right) {   // copy_backward(first, last - 1, last): iterator - integer, decrement from end()
  Env e = setup(1);
  { RANGE_OF(e, g_m); std::copy_backward(first, last - 1, last); }
  std::copy_backward(e.ref, e.ref + e.n - 1, e.ref + e.n);
  check_contents(e); vf_reach("shift_right");
}
VF_HARNESS(tail_subrange) {   // algorithms on an inner sub-range [prev(hi, k), hi) with hi = first + j: std::prev / std::advance / it + (-k) move a random-access iterator by += with a NEGATIVE offset, from the end AND from inner positions
  Env e = setup(0); L j = vf_nondet_long(); vf_assume(0 <= j && j <= e.n); L k = vf_nondet_long(); vf_assume(0 <= k && k <= j); L which = vf_range(0, 2);
  { RANGE_OF(e, g_m); auto hi = first + j;
    if(which == 0) { std::fill(std::prev(hi, k), hi, 7); }
    else if(which == 1) { auto lo = hi; std::advance(lo, -k); std::reverse(lo, hi); }
    else { auto lo = hi + (-k); std::transform(lo, hi, lo, [](int x) { return 2 * x + 1; }); } }
  if(which == 0) { std::fill(e.ref + j - k, e.ref + j, 7); } else if(which == 1) { std::reverse(e.ref + j - k, e.ref + j); }
  else { std::transform(e.ref + j - k, e.ref + j, e.ref + j - k, [](int x) { return 2 * x + 1; }); }
  check_contents(e); vf_reach("tail_subrange");
}
VF_HARNESS(fill_transform) {
  Env e = setup(0); L which = vf_range(0, 1);
  { RANGE_OF(e, g_m); if(which == 0) { std::fill(first, last, 7); } else { std::transform(first, last, first, [](int x) { return 2 * x + 1; }); } }
  if(which == 0) { std::fill(e.ref, e.ref + e.n, 7); } else { std::transform(e.ref, e.ref + e.n, e.ref, [](int x) { return 2 * x + 1; }); }
  check_contents(e); vf_reach("fill_transform");
}
VF_HARNESS(find_count_queries) {   // find, is_sorted, accumulate (non-modifying)
  Env e = setup(0); L p1, s1; bool so; 
  { CRANGE_OF(e, g_m); p1 = std::find(first, last, 2) - first; so = std::is_sorted(first, last); s1 = std::accumulate(first, last, 0); }
  vf_assert(p1 == std::find(e.ref, e.ref + e.n, 2) - e.ref, "find returns the same position");
  vf_assert(so == std::is_sorted(e.ref, e.ref + e.n), "is_sorted agrees");
  vf_assert(s1 == std::accumulate(e.ref, e.ref + e.n, 0), "accumulate agrees");
  check_contents(e); vf_reach("find_count_queries");
}
// ---- two ranges: source view over g_m, destination / second operand view over g_o with the same number of elements
static Env setup2(Env const& e) {
  Env f;
#pragma unroll
  for(int c = 0; c < MEMSZ2; ++c) { int x = vf_nondet_int(); vf_assume(0 <= x && x <= 3); g_o[c] = x; g_oold[c] = x; }
  f.s = arbitrary_spec_like(e.s, 0, MEMSZ2); vf_assume(spec_injective(f.s)); f.n = e.n;
#pragma unroll
  for(int k = 0; k < NMAX; ++k) f.ref[k] = k < f.n ? g_o[addr_of(f.s, k)] : -1;
  return f;
}
VF_HARNESS(copy_move_backward) {   // copy, copy_backward, move into another view
  Env e = setup(0); Env f = setup2(e); L which = vf_range(0, 2); L pos;
  { CRANGE_OF(e, g_m); auto w_ = view_of<D, int>(f.s, g_o, MEMSZ2);
#if RANGE == 1
    auto dfirst = w_.begin(); auto dlast = w_.end();
#else
    auto dr_ = w_.elements(); auto dfirst = dr_.begin(); auto dlast = dr_.end();
#endif
    if(which == 0) { pos = std::copy(first, last, dfirst) - dfirst; } else if(which == 1) { pos = dlast - std::copy_backward(first, last, dlast); } else { pos = std::move(first, last, dfirst) - dfirst; } }
  vf_assert(pos == e.n, "returns the end of the destination range");
#pragma unroll
  for(int k = 0; k < NMAX; ++k) f.ref[k] = e.ref[k];
  check_contents(f, g_o, g_oold); check_contents(e); vf_reach("copy_move_backward");
}
VF_HARNESS(swap_ranges) {
  Env e = setup(0); Env f = setup2(e);
  { RANGE_OF(e, g_m); auto w_ = view_of<D, int>(f.s, g_o, MEMSZ2);
#if RANGE == 1
    auto dfirst = w_.begin();
#else
    auto dr_ = w_.elements(); auto dfirst = dr_.begin();
#endif
    std::swap_ranges(first, last, dfirst); }
#pragma unroll
  for(int k = 0; k < NMAX; ++k) { int t = e.ref[k]; e.ref[k] = f.ref[k]; f.ref[k] = t; }
  check_contents(e); check_contents(f, g_o, g_oold); vf_reach("swap_ranges");
}
VF_HARNESS(equal_lexicographical) {
  Env e = setup(0); Env f = setup2(e); bool eq, lt;
  { CRANGE_OF(e, g_m); auto const w_ = view_of<D, int>(f.s, g_o, MEMSZ2);
#if RANGE == 1
    auto dfirst = w_.begin(); auto dlast = w_.end();
#else
    auto dfirst = w_.elements().begin(); auto dlast = w_.elements().end();
#endif
    eq = std::equal(first, last, dfirst); lt = std::lexicographical_compare(first, last, dfirst, dlast); }
  vf_assert(eq == std::equal(e.ref, e.ref + e.n, f.ref), "equal agrees");
  vf_assert(lt == std::lexicographical_compare(e.ref, e.ref + e.n, f.ref, f.ref + f.n), "lexicographical_compare agrees");
  vf_reach("equal_lexicographical");
}
