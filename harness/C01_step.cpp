// C01 step family (DESIGN 3/C01.2): from an ARBITRARY valid view (symbolic sizes, strides, index bases, origin) apply ONE view-forming
// operation with symbolic in-domain arguments and check that the result has the prescribed shape and designates the prescribed
// elements through every access path.  By induction over the number of operations this covers compositions of any length.
// Compile with -DDIM=1..4.
#include "spec.hpp"
#ifndef DIM
#define DIM 3
#endif
#ifndef FB
#define FB 2   // index bases in [-FB, FB]
#endif
extern "C" { ELEM g_mem[MEMSZ]; }
constexpr int D = DIM;
// value category of the object the operation is called on (each operation has &, const& and && overloads): -DVCAT=0 mutable lvalue, 1 const lvalue, 2 rvalue
#ifndef VCAT
#define VCAT 0
#endif
#include <utility>
#if VCAT == 0
#define V(v) (v)
#elif VCAT == 1
#define V(v) (std::as_const(v))
#else
#define V(v) (std::move(v))
#endif
// the const& overloads of strided / dropped / taked / reversed are ill-formed for D > 1 at the pinned commit (they return a mutable view type): mutable lvalue there
#if VCAT == 1 && DIM >= 2
#define VX(v) (v)
#else
#define VX(v) V(v)
#endif

template<int E> static Spec<E - 1> drop_dim0(Spec<E> const& s) {
  Spec<E - 1> m{};
#pragma unroll
  for(int k = 1; k < E; ++k) m.d[k - 1] = s.d[k];
  m.origin = s.origin;
  return m;
}

#if DIM >= 2
VF_HARNESS(index) {   // v[i] : drop dim 0, origin += (i - first0)*stride0
  Spec<D> s = arbitrary_spec<D>(1, FB);
  auto v = view_of<D>(s, g_mem);
  L i = vf_nondet_long(); vf_assume(s.d[0].first <= i && i < s.d[0].first + s.d[0].size);
  Spec<D - 1> m = drop_dim0(s); m.origin = s.origin + (i - s.d[0].first) * s.d[0].stride;
  check_view<D - 1>(V(v)[i], m);
  vf_reach("index");
}
#else
VF_HARNESS(index) {   // 1-D: v[i] is the element itself
  Spec<1> s = arbitrary_spec<1>(1, FB);
  auto v = view_of<1>(s, g_mem);
  L i = vf_nondet_long(); vf_assume(s.d[0].first <= i && i < s.d[0].first + s.d[0].size);
  L want = s.origin + (i - s.d[0].first) * s.d[0].stride;
  vf_assert(&v[i] - g_mem == want, "v[i] designates the prescribed element");
  vf_assert(&v(i) - g_mem == want, "v(i) designates the prescribed element");
  vf_assert(&v.home()[i - s.d[0].first] - g_mem == want, "cursor designates the prescribed element");
  vf_assert(&v.front() - g_mem == s.origin, "front() is the first element");
  vf_assert(&v.back() - g_mem == s.origin + (s.d[0].size - 1) * s.d[0].stride, "back() is the last element");
  vf_reach("index1");
}
#endif

VF_HARNESS(identity) {   // the arbitrary view itself satisfies the observers (base case of the representation invariant), empty shapes included
  Spec<D> s = arbitrary_spec<D>(0, FB);
  auto v = view_of<D>(s, g_mem);
  check_view<D>(v, s);
  check_view<D>(V(v)(), s);
  vf_reach("identity");
}

VF_HARNESS(sliced) {   // sliced(a,b): size0 = b-a, index base kept (first0), origin += (a-first0)*stride0 ; empty slices (a==b) included
  Spec<D> s = arbitrary_spec<D>(1, FB);
  auto v = view_of<D>(s, g_mem);
  L a = vf_nondet_long(); L b = vf_nondet_long();
  vf_assume(s.d[0].first <= a && a <= b && b <= s.d[0].first + s.d[0].size);
  Spec<D> m = s; m.d[0].size = b - a; m.origin = s.origin + (a - s.d[0].first) * s.d[0].stride;
  check_view<D>(V(v).sliced(a, b), m);
  vf_reach("sliced");
}

VF_HARNESS(sliced_strided) {   // sliced(a,b,st) == sliced(a,b).strided(st)
  Spec<D> s = arbitrary_spec<D>(1, FB);
  auto v = view_of<D>(s, g_mem);
  L a = vf_nondet_long(); L b = vf_nondet_long(); L st = vf_nondet_long();
  vf_assume(s.d[0].first <= a && a < b && b <= s.d[0].first + s.d[0].size);
  vf_assume(1 <= st && st <= NB && (b - a) % st == 0 && s.d[0].first % st == 0);
  Spec<D> m = s; m.d[0].size = (b - a) / st; m.d[0].first = s.d[0].first / st; m.d[0].stride = s.d[0].stride * st; m.origin = s.origin + (a - s.d[0].first) * s.d[0].stride;
  check_view<D>(V(v).sliced(a, b, st), m);
  vf_reach("sliced_strided");
}

VF_HARNESS(strided) {   // strided(st), st | size0 (and st | first0 for re-based views): v'[j] = v[j*st]
  Spec<D> s = arbitrary_spec<D>(1, FB);
  auto v = view_of<D>(s, g_mem);
  L st = vf_nondet_long();
  vf_assume(1 <= st && st <= NB && s.d[0].size % st == 0 && s.d[0].first % st == 0);
  Spec<D> m = s; m.d[0].size = s.d[0].size / st; m.d[0].first = s.d[0].first / st; m.d[0].stride = s.d[0].stride * st;
  check_view<D>(VX(v).strided(st), m);
  vf_reach("strided");
}

VF_HARNESS(dropped) {   // dropped(n): size0 -= n, origin += n*stride0, index base kept
  Spec<D> s = arbitrary_spec<D>(1, FB);
  auto v = view_of<D>(s, g_mem);
  L n = vf_nondet_long(); vf_assume(0 <= n && n <= s.d[0].size);
  Spec<D> m = s; m.d[0].size = s.d[0].size - n; m.origin = s.origin + n * s.d[0].stride;
  check_view<D>(VX(v).dropped(n), m);
  vf_reach("dropped");
}

VF_HARNESS(taked) {   // taked(n): size0 = n
  Spec<D> s = arbitrary_spec<D>(1, FB);
  auto v = view_of<D>(s, g_mem);
  L n = vf_nondet_long(); vf_assume(0 <= n && n <= s.d[0].size);
  Spec<D> m = s; m.d[0].size = n;
  check_view<D>(VX(v).taked(n), m);
  vf_reach("taked");
}

VF_HARNESS(rotated) {   // rotated: dims shift left (0 <- 1 <- ... <- D-1 <- 0)
  Spec<D> s = arbitrary_spec<D>(0, FB);
  auto v = view_of<D>(s, g_mem);
  Spec<D> m = s;
#pragma unroll
  for(int k = 0; k < D; ++k) m.d[k] = s.d[(k + 1) % D];
  check_view<D>(V(v).rotated(), m);
  vf_reach("rotated");
}

VF_HARNESS(unrotated) {   // unrotated: dims shift right
  Spec<D> s = arbitrary_spec<D>(0, FB);
  auto v = view_of<D>(s, g_mem);
  Spec<D> m = s;
#pragma unroll
  for(int k = 0; k < D; ++k) m.d[(k + 1) % D] = s.d[k];
  check_view<D>(V(v).unrotated(), m);
  vf_reach("unrotated");
}

VF_HARNESS(reversed) {   // reversed: order of dims reversed
  Spec<D> s = arbitrary_spec<D>(0, FB);
  auto v = view_of<D>(s, g_mem);
  Spec<D> m = s;
#pragma unroll
  for(int k = 0; k < D; ++k) m.d[k] = s.d[D - 1 - k];
  check_view<D>(VX(v).reversed(), m);
  vf_reach("reversed");
}

VF_HARNESS(partitioned) {   // partitioned(n), n | size0: dim0 -> (n, size0/n) with strides (stride0*size0/n, stride0)
  Spec<D> s = arbitrary_spec<D>(1, FB);
  auto v = view_of<D>(s, g_mem);
  L n = vf_nondet_long(); vf_assume(1 <= n && n <= NB && s.d[0].size % n == 0);
  Spec<D + 1> m{};
  m.d[0] = Dim{0, n, s.d[0].stride * (s.d[0].size / n)};
  m.d[1] = Dim{s.d[0].first, s.d[0].size / n, s.d[0].stride};
#pragma unroll
  for(int k = 1; k < D; ++k) m.d[k + 1] = s.d[k];
  m.origin = s.origin;
  check_view<D + 1>(V(v).partitioned(n), m);
  vf_reach("partitioned");
}

VF_HARNESS(chunked) {   // chunked(c), c | size0: == partitioned(size0/c)
  Spec<D> s = arbitrary_spec<D>(1, FB);
  auto v = view_of<D>(s, g_mem);
  L c = vf_nondet_long(); vf_assume(1 <= c && c <= NB && s.d[0].size % c == 0);
  Spec<D + 1> m{};
  m.d[0] = Dim{0, s.d[0].size / c, s.d[0].stride * c};
  m.d[1] = Dim{s.d[0].first, c, s.d[0].stride};
#pragma unroll
  for(int k = 1; k < D; ++k) m.d[k + 1] = s.d[k];
  m.origin = s.origin;
  check_view<D + 1>(V(v).chunked(c), m);
  vf_reach("chunked");
}

VF_HARNESS(broadcasted) {   // broadcasted: every index of the added leading dimension designates the source view
  Spec<D> s = arbitrary_spec<D>(1, FB);
  auto v = view_of<D>(s, g_mem);
  L i = vf_nondet_long(); vf_assume(-4 <= i && i <= 4);
  auto const& cv = v;
  check_view<D>(cv.broadcasted()[i], s, g_mem);
  vf_reach("broadcasted");
}

#if DIM >= 2
VF_HARNESS(transposed) {   // transposed: dims 0 and 1 swapped
  Spec<D> s = arbitrary_spec<D>(0, FB);
  auto v = view_of<D>(s, g_mem);
  Spec<D> m = s; m.d[0] = s.d[1]; m.d[1] = s.d[0];
  check_view<D>(V(v).transposed(), m);
  vf_reach("transposed");
}

VF_HARNESS(diagonal) {   // diagonal (zero-based dims 0,1): one dim of size min(size0,size1), stride stride0+stride1
  Spec<D> s = arbitrary_spec<D>(1, 0);
  auto v = view_of<D>(s, g_mem);
  Spec<D - 1> m{};
  m.d[0] = Dim{0, s.d[0].size < s.d[1].size ? s.d[0].size : s.d[1].size, s.d[0].stride + s.d[1].stride};
#pragma unroll
  for(int k = 2; k < D; ++k) m.d[k - 1] = s.d[k];
  m.origin = s.origin;
  check_view<D - 1>(V(v).diagonal(), m);
  vf_reach("diagonal");
}

VF_HARNESS(flatted) {   // flatted (dims 0,1 zero-based and mutually contiguous: stride0 == size1*stride1, or a single leading index): one dim of size0*size1, stride1
  Spec<D> s = arbitrary_spec<D>(1, 0);
  vf_assume(s.d[0].size == 1 || s.d[0].stride == s.d[1].size * s.d[1].stride);   // with a single leading index the leading stride is irrelevant
  auto v = view_of<D>(s, g_mem);
  Spec<D - 1> m{};
  m.d[0] = Dim{0, s.d[0].size * s.d[1].size, s.d[1].stride};
#pragma unroll
  for(int k = 2; k < D; ++k) m.d[k - 1] = s.d[k];
  m.origin = s.origin;
  check_view<D - 1>(V(v).flatted(), m);
  vf_reach("flatted");
}
#endif
