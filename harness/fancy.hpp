// fancy.hpp -- user-defined random-access pointer-like types for C11.
//   fptr<T>  (VF_FANCY=1): minimal fancy pointer: no implicit or explicit conversion to or from T*, only its own arithmetic,
//            comparison and dereference (proxy-free references); created only through the named factory fptr<T>::from().
//   cptr<T>  (VF_FANCY=2): provenance/bounds-checking pointer: carries [lo, hi) of the storage it was created for and asserts
//            lo <= p < hi on every dereference.
#pragma once
#include "vf.h"
#include <cstddef>
#include <iterator>
#include <type_traits>
template<class T> struct fptr {
  using element_type = T; using value_type = std::remove_cv_t<T>; using difference_type = std::ptrdiff_t; using pointer = fptr; using reference = T&;
  using iterator_category = std::random_access_iterator_tag;
  template<class U> using rebind = fptr<U>;
  fptr() = default;
  fptr(std::nullptr_t) {}   // NOLINT
  static fptr from(T* p) { fptr r; r.p_ = p; return r; }
  template<class U, class = std::enable_if_t<std::is_convertible_v<U*, T*>>> fptr(fptr<U> const& o) : p_(o.p_) {}   // NOLINT: only the const-adding conversion
  reference operator*() const { return *p_; }
  T* operator->() const { return p_; }
  reference operator[](difference_type n) const { return p_[n]; }
  fptr& operator+=(difference_type n) { p_ += n; return *this; } fptr& operator-=(difference_type n) { p_ -= n; return *this; }
  fptr& operator++() { ++p_; return *this; } fptr& operator--() { --p_; return *this; }
  fptr operator++(int) { fptr r(*this); ++p_; return r; } fptr operator--(int) { fptr r(*this); --p_; return r; }
  friend fptr operator+(fptr a, difference_type n) { a += n; return a; } friend fptr operator+(difference_type n, fptr a) { a += n; return a; }
  friend fptr operator-(fptr a, difference_type n) { a -= n; return a; }
  template<class U> friend difference_type operator-(fptr const& a, fptr<U> const& b) { return a.p_ - b.p_; }
  template<class U> friend bool operator==(fptr const& a, fptr<U> const& b) { return a.p_ == b.p_; }
  template<class U> friend bool operator!=(fptr const& a, fptr<U> const& b) { return a.p_ != b.p_; }
  template<class U> friend bool operator<(fptr const& a, fptr<U> const& b) { return a.p_ < b.p_; }
  template<class U> friend bool operator>(fptr const& a, fptr<U> const& b) { return a.p_ > b.p_; }
  template<class U> friend bool operator<=(fptr const& a, fptr<U> const& b) { return a.p_ <= b.p_; }
  template<class U> friend bool operator>=(fptr const& a, fptr<U> const& b) { return a.p_ >= b.p_; }
  friend bool operator==(fptr const& a, std::nullptr_t) { return a.p_ == nullptr; } friend bool operator!=(fptr const& a, std::nullptr_t) { return a.p_ != nullptr; }
  explicit operator bool() const { return p_ != nullptr; }
  static fptr pointer_to(T& r) { return from(&r); }
  T* p_ = nullptr;   // public only so that fptr<U> can read it; never used by the library (no raw access is part of the interface)
};
template<class T> struct cptr {
  using element_type = T; using value_type = std::remove_cv_t<T>; using difference_type = std::ptrdiff_t; using pointer = cptr; using reference = T&;
  using iterator_category = std::random_access_iterator_tag;
  template<class U> using rebind = cptr<U>;
  cptr() = default;
  cptr(std::nullptr_t) {}   // NOLINT
  static cptr from(T* p, T* lo, T* hi) { cptr r; r.p_ = p; r.lo_ = lo; r.hi_ = hi; return r; }
  template<class U, class = std::enable_if_t<std::is_convertible_v<U*, T*>>> cptr(cptr<U> const& o) : p_(o.p_), lo_(o.lo_), hi_(o.hi_) {}   // NOLINT
  void check(T* q) const { vf_assert(vf_within(q, lo_, (hi_ - lo_) * static_cast<long>(sizeof(T))), "no dereference outside the storage the view was given (bounds-tracking pointer)"); }
  reference operator*() const { check(p_); return *p_; }
  T* operator->() const { check(p_); return p_; }
  reference operator[](difference_type n) const { check(p_ + n); return p_[n]; }
  cptr& operator+=(difference_type n) { p_ += n; return *this; } cptr& operator-=(difference_type n) { p_ -= n; return *this; }
  cptr& operator++() { ++p_; return *this; } cptr& operator--() { --p_; return *this; }
  cptr operator++(int) { cptr r(*this); ++p_; return r; } cptr operator--(int) { cptr r(*this); --p_; return r; }
  friend cptr operator+(cptr a, difference_type n) { a += n; return a; } friend cptr operator+(difference_type n, cptr a) { a += n; return a; }
  friend cptr operator-(cptr a, difference_type n) { a -= n; return a; }
  template<class U> friend difference_type operator-(cptr const& a, cptr<U> const& b) { return a.p_ - b.p_; }
  template<class U> friend bool operator==(cptr const& a, cptr<U> const& b) { return a.p_ == b.p_; }
  template<class U> friend bool operator!=(cptr const& a, cptr<U> const& b) { return a.p_ != b.p_; }
  template<class U> friend bool operator<(cptr const& a, cptr<U> const& b) { return a.p_ < b.p_; }
  template<class U> friend bool operator>(cptr const& a, cptr<U> const& b) { return a.p_ > b.p_; }
  template<class U> friend bool operator<=(cptr const& a, cptr<U> const& b) { return a.p_ <= b.p_; }
  template<class U> friend bool operator>=(cptr const& a, cptr<U> const& b) { return a.p_ >= b.p_; }
  friend bool operator==(cptr const& a, std::nullptr_t) { return a.p_ == nullptr; } friend bool operator!=(cptr const& a, std::nullptr_t) { return a.p_ != nullptr; }
  explicit operator bool() const { return p_ != nullptr; }
  T* p_ = nullptr; T* lo_ = nullptr; T* hi_ = nullptr;
};
// raw address of what a (possibly fancy) pointer designates -- harness side only, for the address oracle
template<class T> static inline T* raw_of(T* p) { return p; }
template<class T> static inline T* raw_of(fptr<T> const& p) { return p.p_; }
template<class T> static inline T* raw_of(cptr<T> const& p) { return p.p_; }
