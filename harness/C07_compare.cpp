// C07: equality and ordering are deep, layout-independent and mutually consistent.
// Two operands, each an ARBITRARY zero-based view (own symbolic extents, strides, origin) over its own storage with symbolic contents
// in {0,1,2}; element types int/int and int/long.  Oracle = plain loops over the spec (no library type):
//   eq = same extents and equal elements at every tuple;   lt = lexicographic over the leading dimension, recursively, proper prefix smaller.
#define VF_NO_GMEM
#define ELEM int
#include "spec.hpp"
#include <boost/multi/array.hpp>
#ifndef DIM
#define DIM 2
#endif
constexpr int D = DIM;
#ifndef MEMSZ2
#define MEMSZ2 16
#endif
extern "C" { int g_a[MEMSZ2]; int g_b[MEMSZ2]; long g_bl[MEMSZ2]; int g_c[MEMSZ2]; }

template<class T> static void symbolic_contents(T* m) {
#pragma unroll
  for(int c = 0; c < MEMSZ2; ++c) { int x = vf_nondet_int(); vf_assume(0 <= x && x <= 2); m[c] = x; }
}
// ---- oracle
template<int E> struct Ora {
  // compare sub-blocks of a (spec sa, storage ma) and b starting at dims [D-E..): returns -1,0,+1 lexicographic ; extents may differ
  template<class TA, class TB> static int cmp(Spec<D> const& sa, TA const* ma, L oa, Spec<D> const& sb, TB const* mb, L ob) {
    constexpr int k = D - E;
    L na = sa.d[k].size, nb = sb.d[k].size;
    int r = 0;
#pragma unroll
    for(int i = 0; i < NB; ++i) {
      if(r == 0 && i < na && i < nb) { r = Ora<E - 1>::cmp(sa, ma, oa + i * sa.d[k].stride, sb, mb, ob + i * sb.d[k].stride); }
    }
    if(r != 0) return r;
    return na < nb ? -1 : (na > nb ? 1 : 0);
  }
};
template<> struct Ora<0> {
  template<class TA, class TB> static int cmp(Spec<D> const&, TA const* ma, L oa, Spec<D> const&, TB const* mb, L ob) {
    return ma[oa] < mb[ob] ? -1 : (ma[oa] > mb[ob] ? 1 : 0);
  }
};
static bool same_extents(Spec<D> const& a, Spec<D> const& b) {
  bool s = true;
#pragma unroll
  for(int k = 0; k < D; ++k) s = s && a.d[k].size == b.d[k].size;
  return s;
}
template<class TA, class TB> static bool ora_eq(Spec<D> const& a, TA const* ma, Spec<D> const& b, TB const* mb) {
  return same_extents(a, b) && Ora<D>::cmp(a, ma, a.origin, b, mb, b.origin) == 0;
}

template<class A, class B, class TA, class TB>
static void check_pair(A const& x, Spec<D> const& sx, TA const* mx, B const& y, Spec<D> const& sy, TB const* my) {
  bool const eq = (x == y); bool const ne = (x != y);
  vf_assert(ne == !eq, "a != b is the negation of a == b");
  bool const empty = spec_num_elements(sx) == 0 || spec_num_elements(sy) == 0;
  if(!empty) {
    vf_assert(eq == ora_eq(sx, mx, sy, my), "a == b iff same extents and equal elements at every index tuple");
    vf_assert((y == x) == eq, "== is symmetric");
  }
}
template<class A, class TA>
static void check_order(A const& x, Spec<D> const& sx, TA const* mx, A const& y, Spec<D> const& sy, TA const* my) {
  bool const empty = spec_num_elements(sx) == 0 || spec_num_elements(sy) == 0;
  if(empty) return;
  int const c = Ora<D>::cmp(sx, mx, sx.origin, sy, my, sy.origin);
  bool const lt = x < y, gt = x > y, le = x <= y, eq = x == y;
  vf_assert(lt == (c < 0), "a < b iff lexicographically smaller over the leading dimension, recursively (proper prefix smaller)");
  vf_assert(gt == (c > 0), "a > b iff b < a");
  vf_assert(le == (c <= 0) || !same_extents(sx, sy), "a <= b iff a < b or a == b (equal extents)");
  vf_assert(le == (lt || eq), "a <= b is (a < b or a == b)");
  vf_assert(!(lt && gt) && !(lt && eq) && !(gt && eq), "at most one of a<b, a==b, b<a");
  if(same_extents(sx, sy)) vf_assert(lt || gt || eq, "exactly one of a<b, a==b, b<a for operands of equal extents");
#if DIM == 1
  bool const ge = x >= y;
  vf_assert(ge == (gt || eq), "a >= b is (a > b or a == b)");
#endif
}

VF_HARNESS(eq_views) {
  symbolic_contents(g_a); symbolic_contents(g_b);
  Spec<D> sa = arbitrary_spec<D>(0, 0, MEMSZ2); Spec<D> sb = arbitrary_spec<D>(0, 0, MEMSZ2);
  auto const a = view_of<D, int>(sa, g_a); auto const b = view_of<D, int>(sb, g_b);
  check_pair(a, sa, g_a, b, sb, g_b);
  vf_assert(a == a && !(a != a), "reflexive");
  vf_reach("eq_views");
}
VF_HARNESS(eq_views_int_long) {   // convertible element types, const and mutable operands
  symbolic_contents(g_a); symbolic_contents(g_bl);
  Spec<D> sa = arbitrary_spec<D>(0, 0, MEMSZ2); Spec<D> sb = arbitrary_spec<D>(0, 0, MEMSZ2);
  auto a = view_of<D, int>(sa, g_a); auto const b = view_of<D, long>(sb, g_bl);
  check_pair(a, sa, g_a, b, sb, g_bl);
  vf_reach("eq_views_int_long");
}
VF_HARNESS(eq_order_aliased) {   // both operands view the SAME storage (possibly the same first element) with different layouts, e.g. A vs A.transposed()
  symbolic_contents(g_a);
  Spec<D> sa = arbitrary_spec<D>(1, 0, MEMSZ2); Spec<D> sb = arbitrary_spec<D>(1, 0, MEMSZ2);
  auto const a = view_of<D, int>(sa, g_a); auto const b = view_of<D, int>(sb, g_a);
  check_pair(a, sa, g_a, b, sb, g_a);
  check_order(a, sa, g_a, b, sb, g_a);
  auto ma = view_of<D, int>(sa, g_a); auto mb = view_of<D, int>(sb, g_a);
  check_pair(ma, sa, g_a, mb, sb, g_a);      // mutable operands (a different overload)
  vf_reach("eq_order_aliased");
}
VF_HARNESS(eq_rebased) {   // operands with index bases: equal iff same extensions (sizes AND bases: "equal elements at every index tuple") and equal elements
  symbolic_contents(g_a); symbolic_contents(g_b);
  Spec<D> sa = arbitrary_spec<D>(1, 1, MEMSZ2); Spec<D> sb = arbitrary_spec<D>(1, 1, MEMSZ2);
  auto const a = view_of<D, int>(sa, g_a); auto const b = view_of<D, int>(sb, g_b);
  bool same_bases = true;
#pragma unroll
  for(int k = 0; k < D; ++k) same_bases = same_bases && sa.d[k].first == sb.d[k].first;
  Spec<D> za = sa; Spec<D> zb = sb;     // zero-based twins for the element oracle
#pragma unroll
  for(int k = 0; k < D; ++k) { za.d[k].first = 0; zb.d[k].first = 0; }
  bool const eq = (a == b);
  vf_assert((a != b) == !eq, "a != b is the negation of a == b");
  vf_assert(eq == (same_bases && ora_eq(za, g_a, zb, g_b)), "a == b iff same extensions (index bases included) and equal elements at every index tuple");
  vf_assert((b == a) == eq, "== is symmetric");
  auto ma = view_of<D, int>(sa, g_a); auto mb = view_of<D, int>(sb, g_b);
  vf_assert((ma == mb) == eq && (ma != mb) == !eq, "mutable operands agree with const ones");
  vf_reach("eq_rebased");
}
VF_HARNESS(order_views) {
  symbolic_contents(g_a); symbolic_contents(g_b);
  Spec<D> sa = arbitrary_spec<D>(1, 0, MEMSZ2); Spec<D> sb = arbitrary_spec<D>(1, 0, MEMSZ2);
  auto const a = view_of<D, int>(sa, g_a); auto const b = view_of<D, int>(sb, g_b);
  check_order(a, sa, g_a, b, sb, g_b);
  vf_reach("order_views");
}
template<std::size_t... I> static auto mkref(int* base, L const* n, std::index_sequence<I...>) { return multi::array_ref<int, D>(multi::extensions_t<D>{multi::index_extension(n[I])...}, base); }
VF_HARNESS(eq_array_ref) {   // references (flat comparison) against each other and against a strided view
  symbolic_contents(g_a); symbolic_contents(g_b);
  L na[D]; L nb[D]; L nea = 1, neb = 1;
#pragma unroll
  for(int k = 0; k < D; ++k) { na[k] = vf_range(0, NB); nb[k] = vf_range(0, NB); nea *= na[k]; neb *= nb[k]; }
  vf_assume(nea <= MEMSZ2 && neb <= MEMSZ2);
  Spec<D> sa = contiguous_spec<D>(na); Spec<D> sb = contiguous_spec<D>(nb);
  auto const A = mkref(g_a, na, std::make_index_sequence<D>{}); auto const B = mkref(g_b, nb, std::make_index_sequence<D>{});
  check_pair(A, sa, g_a, B, sb, g_b);
  Spec<D> sv = arbitrary_spec<D>(0, 0, MEMSZ2);
  auto const v = view_of<D, int>(sv, g_b);
  check_pair(A(), sa, g_a, v, sv, g_b);
  vf_reach("eq_array_ref");
}
#ifdef TRIPLES
VF_HARNESS(order_transitive) {   // strict weak order on triples of equal extents
  symbolic_contents(g_a); symbolic_contents(g_b); symbolic_contents(g_c);
  Spec<D> sa = arbitrary_spec<D>(1, 0, MEMSZ2); Spec<D> sb = arbitrary_spec_like(sa, 0, MEMSZ2); Spec<D> sc = arbitrary_spec_like(sa, 0, MEMSZ2);
  auto const a = view_of<D, int>(sa, g_a); auto const b = view_of<D, int>(sb, g_b); auto const c = view_of<D, int>(sc, g_c);
  if(a < b && b < c) vf_assert(a < c, "< is transitive");
  if(a == b && b == c) vf_assert(a == c, "== is transitive");
  if(!(a < b) && !(b < a) && !(b < c) && !(c < b)) vf_assert(!(a < c) && !(c < a), "incomparability is transitive");
  if(a == b) vf_assert((a < c) == (b < c) && (c < a) == (c < b), "== is a congruence for <");
  vf_reach("order_transitive");
}
#endif
