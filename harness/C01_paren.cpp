// C01: call syntax with mixed index / range / all arguments, base case (array_ref over symbolic extents, empty shapes included),
// and a K-step composition machine started from a contiguous root (cross-check that the representation invariant assumed by the
// step family is what real arrays produce).  -DDIM=2|3
#include "spec.hpp"
#ifndef DIM
#define DIM 2
#endif
#ifndef FB
#define FB 1
#endif
extern "C" { ELEM g_mem[MEMSZ]; }
constexpr int D = DIM;
using R = multi::index_range;

// K = kind per dimension: 0 index, 1 range {a,b}, 2 all
template<int K> struct Arg;
template<> struct Arg<0> { L i; auto get() const { return i; } };
template<> struct Arg<1> { L a, b; auto get() const { return R{a, b}; } };
// README spells the whole-range placeholder multi::all / multi::_; the header defines ALL, _, U, ooo
template<> struct Arg<2> { auto get() const { return multi::ALL; } };
template<int K> static Arg<K> draw_arg(Dim const& d) {
  Arg<K> r{};
  if constexpr(K == 0) { r.i = vf_nondet_long(); vf_assume(d.first <= r.i && r.i < d.first + d.size); }
  if constexpr(K == 1) { r.a = vf_nondet_long(); r.b = vf_nondet_long(); vf_assume(d.first <= r.a && r.a < r.b && r.b <= d.first + d.size); }
  return r;
}
// spec of the result: an index drops the dimension and moves the origin; a range restricts it (index base kept, as sliced); all keeps it
template<int K> static void apply_arg(Arg<K> const& a, Dim const& d, Dim* out, int& nout, L& origin) {
  if constexpr(K == 0) { origin += (a.i - d.first) * d.stride; }
  if constexpr(K == 1) { out[nout] = Dim{d.first, a.b - a.a, d.stride}; origin += (a.a - d.first) * d.stride; ++nout; }
  if constexpr(K == 2) { out[nout] = d; ++nout; }
}
#if DIM == 2
template<int K0, int K1> static void t_paren() {
  Spec<2> s = arbitrary_spec<2>(1, FB);
  auto v = view_of<2>(s, g_mem);
  auto a0 = draw_arg<K0>(s.d[0]); auto a1 = draw_arg<K1>(s.d[1]);
  constexpr int RD = (K0 != 0) + (K1 != 0);
  Spec<(RD > 0 ? RD : 1)> m{}; int n = 0; L origin = s.origin;
  apply_arg(a0, s.d[0], m.d, n, origin); apply_arg(a1, s.d[1], m.d, n, origin); m.origin = origin;
  if constexpr(RD == 0) { vf_assert(&v(a0.get(), a1.get()) - g_mem == origin, "v(i,j) designates the prescribed element"); }
  else { check_view<RD>(v(a0.get(), a1.get()), m); }
}
#define P2(A, B) VF_HARNESS(paren_##A##B) { t_paren<A, B>(); vf_reach("paren_" #A #B); }
P2(0, 1) P2(1, 0) P2(1, 1) P2(2, 0) P2(0, 2) P2(2, 1) P2(1, 2) P2(2, 2)
#else
template<int K0, int K1, int K2> static void t_paren() {
  Spec<3> s = arbitrary_spec<3>(1, FB);
  auto v = view_of<3>(s, g_mem);
  auto a0 = draw_arg<K0>(s.d[0]); auto a1 = draw_arg<K1>(s.d[1]); auto a2 = draw_arg<K2>(s.d[2]);
  constexpr int RD = (K0 != 0) + (K1 != 0) + (K2 != 0);
  Spec<(RD > 0 ? RD : 1)> m{}; int n = 0; L origin = s.origin;
  apply_arg(a0, s.d[0], m.d, n, origin); apply_arg(a1, s.d[1], m.d, n, origin); apply_arg(a2, s.d[2], m.d, n, origin); m.origin = origin;
  check_view<RD>(v(a0.get(), a1.get(), a2.get()), m);
}
#define P3(A, B, C) VF_HARNESS(paren_##A##B##C) { t_paren<A, B, C>(); vf_reach("paren_" #A #B #C); }
P3(0, 1, 2) P3(1, 0, 1) P3(2, 1, 0) P3(1, 1, 1) P3(0, 0, 1) P3(1, 2, 0) P3(0, 2, 2) P3(2, 0, 0)
#endif

// ---- base case: array_ref over symbolic extents (0 included): contiguous row-major, zero-based; every element read lies inside the root
template<std::size_t... I> static auto mkref(L const* n, std::index_sequence<I...>) { return multi::array_ref<ELEM, D>(multi::extensions_t<D>{multi::index_extension(n[I])...}, &g_mem[0]); }
VF_HARNESS(base_array_ref) {
  L n[D]; L ne = 1; bool empty = false;
#pragma unroll
  for(int k = 0; k < D; ++k) { n[k] = vf_range(0, NB); ne *= n[k]; empty = empty || n[k] == 0; }
  auto A = mkref(n, std::make_index_sequence<D>{});
  vf_assert(A.num_elements() == ne && A.is_empty() == empty, "num_elements / is_empty agree with the extents");
  if(!empty) {
    Spec<D> m = contiguous_spec<D>(n, 0);
    check_view<D>(A, m); check_view<D>(A(), m);
    L i[D]; arbitrary_index(m, i);
    vf_assert(0 <= spec_addr(m, i) && spec_addr(m, i) < ne, "every valid tuple designates a cell of the original storage [0, num_elements)");
  }
  vf_reach("base_array_ref");
}

// ---- K-step composition from a contiguous root: spec machine and library run in lock-step (ops that keep the dimensionality).
// The machine state is (layout, base); the view is re-materialised from it each step through the public constructor, so the loop
// body exists once in the program and cbmc unwinds it KSTEPS times.
#ifndef KSTEPS
#define KSTEPS 2
#endif
VF_HARNESS(machine) {
  L n[D]; L ne = 1;
#pragma unroll
  for(int k = 0; k < D; ++k) { n[k] = vf_range(1, NB); ne *= n[k]; }
  auto A = mkref(n, std::make_index_sequence<D>{});
  Spec<D> m = contiguous_spec<D>(n, 0);
  multi::layout_t<D> lay = A.layout(); ELEM* base = A.base();
#pragma nounroll
  for(int step = 0; step < KSTEPS; ++step) {
    multi::subarray<ELEM, D> v(lay, base);   // a mutable lvalue view (the const& overloads of strided/dropped/taked for D>1 do not compile)
    L op = vf_range(0, 5);
    Spec<D> s = m;
    if(op == 0) { L a = vf_nondet_long(); L b = vf_nondet_long(); vf_assume(s.d[0].first <= a && a < b && b <= s.d[0].first + s.d[0].size);
                  m.d[0].size = b - a; m.origin = s.origin + (a - s.d[0].first) * s.d[0].stride; auto r = v.sliced(a, b); lay = r.layout(); base = const_cast<ELEM*>(static_cast<ELEM const*>(r.base())); }
    else if(op == 1) { L st = vf_range(1, NB); vf_assume(s.d[0].size % st == 0 && s.d[0].first % st == 0);
                  m.d[0].size = s.d[0].size / st; m.d[0].first = s.d[0].first / st; m.d[0].stride = s.d[0].stride * st; auto r = v.strided(st); lay = r.layout(); base = const_cast<ELEM*>(static_cast<ELEM const*>(r.base())); }
    else if(op == 2) { L k = vf_nondet_long(); vf_assume(0 <= k && k < s.d[0].size); m.d[0].size = s.d[0].size - k; m.origin = s.origin + k * s.d[0].stride; auto r = v.dropped(k); lay = r.layout(); base = const_cast<ELEM*>(static_cast<ELEM const*>(r.base())); }
    else if(op == 3) {
#pragma unroll
      for(int k = 0; k < D; ++k) m.d[k] = s.d[(k + 1) % D];
      auto r = v.rotated(); lay = r.layout(); base = const_cast<ELEM*>(static_cast<ELEM const*>(r.base())); }
    else if(op == 4) { m.d[0] = s.d[1]; m.d[1] = s.d[0]; auto r = v.transposed(); lay = r.layout(); base = const_cast<ELEM*>(static_cast<ELEM const*>(r.base())); }
    else { L f = vf_range(-FB, FB); m.d[0].first = f; auto r = v.reindexed(f); lay = r.layout(); base = const_cast<ELEM*>(static_cast<ELEM const*>(r.base())); }
  }
  multi::subarray<ELEM, D> v(lay, base);
  check_view<D>(v, m);
  { L i[D]; arbitrary_index(m, i); vf_assert(0 <= spec_addr(m, i) && spec_addr(m, i) < ne, "the composed view stays inside the original array"); }
  vf_reach("machine");
}
