// spec.hpp -- shared specification vocabulary (DESIGN 2.7): a strided view is
//   Spec<D> = { (first_k, size_k, stride_k) k<D ; origin }   origin = element offset (from g_mem) of the element at tuple (first_0..first_{D-1})
// and the element designated by a valid tuple i is  origin + sum_k (i_k - first_k) * stride_k.
// Nothing here uses a library type except lay()/view(), which build the library object from a Spec through public constructors.
#pragma once
#include "vf.h"
#include <boost/multi/array_ref.hpp>
#include <tuple>
#include <utility>
namespace multi = boost::multi;

#ifndef NB
#define NB 3   // bound on each extent
#endif
#ifndef SB
#define SB 6   // bound on each stride of an arbitrary layout
#endif
#ifndef MEMSZ
#define MEMSZ 96
#endif
#ifndef ELEM
#define ELEM char
#endif
#ifndef VF_NO_GMEM
extern "C" { extern ELEM g_mem[MEMSZ]; }
#define VF_GMEM_DEFAULT = g_mem
#else
#define VF_GMEM_DEFAULT
#endif

struct Dim { L first, size, stride; };
template<int D> struct Spec { Dim d[D > 0 ? D : 1]; L origin; };

template<int D> static inline L spec_num_elements(Spec<D> const& s) {
  L n = 1;
#pragma unroll
  for(int k = 0; k < D; ++k) n *= s.d[k].size;
  return n;
}
// largest element offset (relative to origin) touched by the view; 0 for empty views
template<int D> static inline L spec_hull(Spec<D> const& s) {
  L h = 0;
#pragma unroll
  for(int k = 0; k < D; ++k) h += (s.d[k].size > 0 ? s.d[k].size - 1 : 0) * s.d[k].stride;
  return h;
}
// an arbitrary valid view description inside g_mem: sizes in [minsize, NB], strides in [1, SB], index bases in [-fb, fb]
template<int D> static inline Spec<D> arbitrary_spec(L minsize = 0, L fb = 0, L memsz = MEMSZ) {
  Spec<D> s{};
#pragma unroll
  for(int k = 0; k < D; ++k) {
    s.d[k].size = vf_nondet_long();
    s.d[k].stride = vf_nondet_long();
    s.d[k].first = 0;
    if(fb != 0) { s.d[k].first = vf_nondet_long(); vf_assume(-fb <= s.d[k].first && s.d[k].first <= fb); }
    vf_assume(minsize <= s.d[k].size && s.d[k].size <= NB && 1 <= s.d[k].stride && s.d[k].stride <= SB);
  }
  s.origin = vf_nondet_long();
  vf_assume(0 <= s.origin && s.origin < memsz);
  vf_assume(s.origin + spec_hull(s) < memsz);
  return s;
}
// row-major contiguous description of extents n[] (what array_ref / array produce)
template<int D> static inline Spec<D> contiguous_spec(L const* n, L origin = 0) {
  Spec<D> s{};
  L st = 1;
#pragma unroll
  for(int k = D - 1; k >= 0; --k) { s.d[k].first = 0; s.d[k].size = n[k]; s.d[k].stride = st; st *= n[k]; }
  s.origin = origin;
  return s;
}
template<int D> static inline L spec_addr(Spec<D> const& s, L const* i) {
  L a = s.origin;
#pragma unroll
  for(int k = 0; k < D; ++k) a += (i[k] - s.d[k].first) * s.d[k].stride;
  return a;
}
// symbolic valid index tuple of s (requires every size > 0)
template<int D> static inline void arbitrary_index(Spec<D> const& s, L* i) {
#pragma unroll
  for(int k = 0; k < D; ++k) { i[k] = vf_nondet_long(); vf_assume(s.d[k].first <= i[k] && i[k] < s.d[k].first + s.d[k].size); }
}

// ---- library objects from a Spec, using the documented (stride, offset, nelems) representation and the public constructors
template<int D> struct Lay {
  static multi::layout_t<D> make(Dim const* d) {
    return multi::layout_t<D>(Lay<D - 1>::make(d + 1), d[0].stride, d[0].first * d[0].stride, d[0].size * d[0].stride);
  }
};
template<> struct Lay<0> {
  static multi::layout_t<0> make(Dim const*) { return multi::layout_t<0>(multi::extensions_t<0>{}); }
};
// pointer type of the views under test: raw (default), minimal fancy pointer (-DVF_FANCY=1), bounds-tracking pointer (-DVF_FANCY=2)
#if defined(VF_FANCY)
#include "fancy.hpp"
#endif
#if defined(VF_FANCY) && VF_FANCY == 1
template<class T> using vf_ptr = fptr<T>;
template<class T> static inline fptr<T> vf_mkptr(T* root, long /*cells*/) { return fptr<T>::from(root); }
#elif defined(VF_FANCY) && VF_FANCY == 2
template<class T> using vf_ptr = cptr<T>;
template<class T> static inline cptr<T> vf_mkptr(T* root, long cells) { return cptr<T>::from(root, root, root + cells); }
#else
template<class T> using vf_ptr = T*;
template<class T> static inline T* vf_mkptr(T* root, long /*cells*/) { return root; }
template<class T> static inline T* raw_of(T* p) { return p; }
#endif
#ifndef VF_ROOT_CELLS
#define VF_ROOT_CELLS MEMSZ
#endif
template<int D, class T = ELEM> static inline multi::subarray<T, D, vf_ptr<T>> view_of(Spec<D> const& s, T* root, long cells = VF_ROOT_CELLS) {
  return multi::subarray<T, D, vf_ptr<T>>(Lay<D>::make(s.d), vf_mkptr<T>(root, cells) + s.origin);
}

// ---- access paths
template<class V> static inline auto elem_brackets(V&& v, L const* i) -> decltype(auto) {
  if constexpr(std::decay_t<V>::rank_v == 1) { return v[i[0]]; }
  else { return elem_brackets(v[i[0]], i + 1); }
}
template<class V, std::size_t... I> static inline auto elem_paren_(V&& v, L const* i, std::index_sequence<I...>) -> decltype(auto) { return v(i[I]...); }
template<class V> static inline auto elem_paren(V&& v, L const* i) -> decltype(auto) { return elem_paren_(v, i, std::make_index_sequence<std::decay_t<V>::rank_v>{}); }
template<class V, std::size_t... I> static inline auto elem_apply_(V&& v, L const* i, std::index_sequence<I...>) -> decltype(auto) { return v.apply(std::make_tuple(i[I]...)); }
template<class V> static inline auto elem_apply(V&& v, L const* i) -> decltype(auto) { return elem_apply_(v, i, std::make_index_sequence<std::decay_t<V>::rank_v>{}); }
template<class C, int D> static inline auto elem_cursor_(C c, L const* rel, std::integral_constant<int, D>) -> decltype(auto) {
  if constexpr(D == 1) { return c[rel[0]]; }
  else { return elem_cursor_(c[rel[0]], rel + 1, std::integral_constant<int, D - 1>{}); }
}

template<class T, std::size_t... I> static inline void tuple_to_array_(T const& t, L* out, std::index_sequence<I...>) { using std::get; using boost::multi::detail::get; ((out[I] = get<I>(t)), ...); }

// ---- observers agree with the spec; a symbolic valid tuple reaches the prescribed element through every access path
template<int D, class V> static inline void check_view(V&& v, Spec<D> const& m, ELEM* root VF_GMEM_DEFAULT) {
  static_assert(std::decay_t<V>::rank_v == D, "rank");
  L sz[D]; L st[D];
  tuple_to_array_(v.sizes(), sz, std::make_index_sequence<D>{});
  tuple_to_array_(v.strides(), st, std::make_index_sequence<D>{});
  bool sizes_ok = true, strides_ok = true;
#pragma unroll
  for(int k = 0; k < D; ++k) { sizes_ok = sizes_ok && sz[k] == m.d[k].size; strides_ok = strides_ok && st[k] == m.d[k].stride; }
  L const ne = spec_num_elements(m);
  vf_assert(sizes_ok, "sizes() equals the prescribed extents");
  vf_assert(strides_ok, "strides() equals the prescribed strides");
  vf_assert(v.size() == m.d[0].size, "size() equals the prescribed leading extent");
  vf_assert(v.num_elements() == ne, "num_elements() equals the product of the prescribed extents");
  vf_assert(v.is_empty() == (m.d[0].size == 0), "is_empty() iff the leading extent is 0");
  if(m.d[0].size != 0) {
    vf_assert(v.extension().first() == m.d[0].first && v.extension().last() == m.d[0].first + m.d[0].size, "extension() equals the prescribed leading index range");
  } else {
    vf_assert(v.extension().size() == 0, "extension() of an empty view is empty");
  }
  if(ne != 0) {
    L ext_first[D], ext_last[D];
    { auto xs = v.extensions(); using boost::multi::detail::get;
      std::apply([&](auto... e) { L f[] = {e.first()...}; L l[] = {e.last()...};
#pragma unroll
        for(int k = 0; k < D; ++k) { ext_first[k] = f[k]; ext_last[k] = l[k]; } }, xs.base()); }
    bool ext_ok = true;
#pragma unroll
    for(int k = 0; k < D; ++k) ext_ok = ext_ok && ext_first[k] == m.d[k].first && ext_last[k] == m.d[k].first + m.d[k].size;
    vf_assert(ext_ok, "extensions() equals the prescribed index ranges");
    L i[D]; arbitrary_index(m, i);
    L const want = spec_addr(m, i);
    vf_assert(0 <= want && want < MEMSZ, "prescribed element lies inside the root storage");
    vf_assert(&elem_brackets(v, i) - root == want, "chained brackets reach the prescribed element");
    vf_assert(&elem_paren(v, i) - root == want, "call syntax reaches the prescribed element");
    vf_assert(&elem_apply(v, i) - root == want, "tuple apply reaches the prescribed element");
    L rel[D];
#pragma unroll
    for(int k = 0; k < D; ++k) rel[k] = i[k] - m.d[k].first;
    vf_assert(&elem_cursor_(v.home(), rel, std::integral_constant<int, D>{}) - root == want, "cursor reaches the prescribed element");
    ELEM volatile sink = elem_brackets(v, i); (void)sink;   // an actual read: cbmc checks it against the bounds of the root object
  }
}

// a view description with prescribed sizes (own strides / origin), inside a storage of memsz cells
template<int D> static inline Spec<D> arbitrary_spec_like(Spec<D> const& like, L fb, L memsz) {
  Spec<D> s{};
#pragma unroll
  for(int k = 0; k < D; ++k) {
    s.d[k].size = like.d[k].size;
    s.d[k].stride = vf_nondet_long();
    s.d[k].first = 0;
    if(fb != 0) { s.d[k].first = vf_nondet_long(); vf_assume(-fb <= s.d[k].first && s.d[k].first <= fb); }
    vf_assume(1 <= s.d[k].stride && s.d[k].stride <= SB);
  }
  s.origin = vf_nondet_long();
  vf_assume(0 <= s.origin && s.origin < memsz);
  vf_assume(s.origin + spec_hull(s) < memsz);
  return s;
}
// distinct valid tuples designate distinct cells (no self-overlap): holds for every view the library can produce from an array
template<int D> static inline bool spec_injective(Spec<D> const& s) {
  // sufficient and, for the bounded shapes used here, checked by enumeration: for all pairs of tuples, equal address => equal tuple
  constexpr int N = D == 1 ? NB : D == 2 ? NB * NB : NB * NB * NB;
  bool ok = true;
#pragma unroll
  for(int t = 0; t < N; ++t) {
#pragma unroll
    for(int u = 0; u < t; ++u) {
      L i[D], j[D]; int tt = t, uu = u; bool vi = true, vj = true;
#pragma unroll
      for(int k = D - 1; k >= 0; --k) { i[k] = tt % NB; tt /= NB; j[k] = uu % NB; uu /= NB; vi = vi && i[k] < s.d[k].size; vj = vj && j[k] < s.d[k].size; i[k] += s.d[k].first; j[k] += s.d[k].first; }
      if(vi && vj && spec_addr(s, i) == spec_addr(s, j)) ok = false;
    }
  }
  return ok;
}
// is cell c designated by the view?  if so, out = the (unique, if injective) tuple designating it
template<int D> static inline bool spec_designates(Spec<D> const& s, L c, L* out) {
  constexpr int N = D == 1 ? NB : D == 2 ? NB * NB : NB * NB * NB;
  bool found = false;
#pragma unroll
  for(int t = 0; t < N; ++t) {
    L i[D]; int tt = t; bool valid = true;
#pragma unroll
    for(int k = D - 1; k >= 0; --k) { i[k] = tt % NB; tt /= NB; valid = valid && i[k] < s.d[k].size; i[k] += s.d[k].first; }
    if(valid && spec_addr(s, i) == c) {
      found = true;
#pragma unroll
      for(int k = 0; k < D; ++k) out[k] = i[k];
    }
  }
  return found;
}
