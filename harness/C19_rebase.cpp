// C19: index bases are transparent.  Re-based views (explicit index extensions, reindexed, blocked, stenciled) designate the same
// elements as the zero-based view with indices shifted; re-indexing changes which indices are valid, never which elements are viewed.
// (The C01 step family and the C02 laws already run on views with symbolic index bases in [-FB, FB]; this TU adds the operations
// that CREATE index bases.)  Compile with -DDIM=1..3.
#include "spec.hpp"
#ifndef DIM
#define DIM 2
#endif
#ifndef FB
#define FB 2
#endif
extern "C" { ELEM g_mem[MEMSZ]; }
constexpr int D = DIM;
using X = multi::index_extension;

template<std::size_t... I> static auto make_ref_(L const* f, L const* n, std::index_sequence<I...>) {
  return multi::array_ref<ELEM, D>(multi::extensions_t<D>{X{f[I], f[I] + n[I]}...}, &g_mem[0]);
}
VF_HARNESS(explicit_extensions) {   // array_ref over explicit extensions [f_k, f_k+n_k): contiguous row-major, index base f_k, first element at the data pointer
  L n[D]; L f[D];
#pragma unroll
  for(int k = 0; k < D; ++k) { n[k] = vf_range(1, NB); f[k] = vf_range(-FB, FB); }
  Spec<D> m = contiguous_spec<D>(n, 0);
#pragma unroll
  for(int k = 0; k < D; ++k) m.d[k].first = f[k];
  auto A = make_ref_(f, n, std::make_index_sequence<D>{});
  check_view<D>(A, m);
  check_view<D>(A(), m);
  vf_reach("explicit_extensions");
}

VF_HARNESS(reindexed1) {   // reindexed(f): leading index base becomes f, same elements
  Spec<D> s = arbitrary_spec<D>(1, FB);
  auto v = view_of<D>(s, g_mem);
  L f = vf_range(-FB, FB);
  Spec<D> m = s; m.d[0].first = f;
  check_view<D>(v.reindexed(f), m);
  vf_reach("reindexed1");
}

template<class V, std::size_t... I> static auto reindexed_all_(V&& v, L const* f, std::index_sequence<I...>) { return v.reindexed(f[I]...); }
VF_HARNESS(reindexed_all) {   // reindexed(f0, ..., f_{D-1})
  Spec<D> s = arbitrary_spec<D>(1, FB);
  auto v = view_of<D>(s, g_mem);
  L f[D]; Spec<D> m = s;
#pragma unroll
  for(int k = 0; k < D; ++k) { f[k] = vf_range(-FB, FB); m.d[k].first = f[k]; }
  check_view<D>(reindexed_all_(v, f, std::make_index_sequence<D>{}), m);
  vf_reach("reindexed_all");
}

VF_HARNESS(blocked) {   // blocked(a,b): elements a..b-1 of dim 0, indexed a..b-1
  Spec<D> s = arbitrary_spec<D>(1, FB);
  auto v = view_of<D>(s, g_mem);
  L a = vf_nondet_long(); L b = vf_nondet_long();
  vf_assume(s.d[0].first <= a && a < b && b <= s.d[0].first + s.d[0].size);
  Spec<D> m = s; m.d[0].first = a; m.d[0].size = b - a; m.origin = s.origin + (a - s.d[0].first) * s.d[0].stride;
  check_view<D>(v.blocked(a, b), m);
  vf_reach("blocked");
}

template<class V, std::size_t... I> static auto stenciled_all_(V&& v, L const* a, L const* b, std::index_sequence<I...>) { return v.stenciled(X{a[I], b[I]}...); }
VF_HARNESS(stenciled) {   // stenciled({a0,b0},...): the sub-block keeps the parent's indices in every dimension
  Spec<D> s = arbitrary_spec<D>(1, FB);
  auto v = view_of<D>(s, g_mem);
  L a[D]; L b[D]; Spec<D> m = s;
#pragma unroll
  for(int k = 0; k < D; ++k) {
    a[k] = vf_nondet_long(); b[k] = vf_nondet_long();
    vf_assume(s.d[k].first <= a[k] && a[k] < b[k] && b[k] <= s.d[k].first + s.d[k].size);
    m.d[k].first = a[k]; m.d[k].size = b[k] - a[k]; m.origin += (a[k] - s.d[k].first) * s.d[k].stride;
  }
  check_view<D>(stenciled_all_(v, a, b, std::make_index_sequence<D>{}), m);
  vf_reach("stenciled");
}

VF_HARNESS(twin_index_slice) {   // relational twin: R = Z re-based by f; R[i+f] / R.sliced(a+f,b+f) designate what Z[i] / Z.sliced(a,b) designate
  Spec<D> z = arbitrary_spec<D>(1, 0);
  L f[D]; Spec<D> r = z;
#pragma unroll
  for(int k = 0; k < D; ++k) { f[k] = vf_range(-FB, FB); r.d[k].first = f[k]; }
  auto Z = view_of<D>(z, g_mem); auto R = view_of<D>(r, g_mem);
  L a = vf_nondet_long(); L b = vf_nondet_long(); vf_assume(0 <= a && a < b && b <= z.d[0].size);
  auto zs = Z.sliced(a, b); auto rs = R.sliced(a + f[0], b + f[0]);
  vf_assert(zs.base() == rs.base(), "sliced: same first element");
  vf_assert(zs.size() == rs.size() && zs.strides() == rs.strides() && zs.sizes() == rs.sizes(), "sliced: same shape");
  vf_assert(rs.extension().first() == zs.extension().first() + f[0], "sliced: extension shifted by the base");
  L i[D]; L j[D]; arbitrary_index(z, i);
#pragma unroll
  for(int k = 0; k < D; ++k) j[k] = i[k] + f[k];
  vf_assert(&elem_brackets(Z, i) == &elem_brackets(R, j) && &elem_paren(Z, i) == &elem_paren(R, j), "same element at shifted tuple");
  vf_assert(Z.num_elements() == R.num_elements() && Z.size() == R.size(), "same sizes");
  // iteration visits the same sub-views / elements
  L p = vf_nondet_long(); vf_assume(0 <= p && p < z.d[0].size);
#if DIM == 1
  vf_assert(&*(Z.begin() + p) == &*(R.begin() + p), "iteration: same element at position p");
#else
  vf_assert((*(Z.begin() + p)).base() == (*(R.begin() + p)).base(), "iteration: same sub-view at position p");
#endif
  // flat element range visits the same elements in the same order
  L q = vf_nondet_long(); vf_assume(0 <= q && q < spec_num_elements(z));
  vf_assert(&Z.elements()[q] == &R.elements()[q], "elements(): same q-th element");
  vf_assert(&*(Z.elements().begin() + q) == &*(R.elements().begin() + q), "elements() iterator: same q-th element");
  vf_reach("twin_index_slice");
}
