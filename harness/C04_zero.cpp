// C04/C05/C07 at dimensionality 0: a 0-D array owns exactly one element; copy / assign / move / swap / == behave as values,
// and assignment through a 0-D reference writes exactly the referenced element.
#include "own.hpp"
using T = int;
using A0 = multi::array<T, 0, A<T>>;
extern "C" { int g_z[4]; }
VF_HARNESS(zero_dim_value_semantics) {
  int x = vf_nondet_int(); int y = vf_nondet_int(); vf_assume(x != y);
  { SLOT(0); A0 a(x); SLOT(1); A0 b(y);
    vf_assert(a.num_elements() == 1 && static_cast<int>(a) == x, "a 0-D array holds exactly its one element");
    vf_assert((a == y) == (x == y) && (a == x), "== against an element compares the element (array == array is ambiguous at D=0 in this library: not exercised)");
    SLOT(2); A0 c(a);
    vf_assert(static_cast<int>(c) == x && c.base() != a.base(), "copy construction copies the element into own storage");
    c = b;
    vf_assert(static_cast<int>(c) == y && static_cast<int>(b) == y, "copy assignment copies the element");
    *c.base() = 77;
    vf_assert(static_cast<int>(b) == y && static_cast<int>(a) == x, "a write to one array is invisible in the others");
    c = a; vf_assert(c == x, "assigned array equals its source");
    A0& alias = c; c = alias; vf_assert(static_cast<int>(c) == x, "self-assignment changes nothing"); }
  check_all_released();
  vf_reach("zero_dim_value_semantics");
}
VF_HARNESS(zero_dim_reference_assignment) {
  int x = vf_nondet_int(); L k = vf_range(0, 3); L j = vf_range(0, 3); vf_assume(k != j);
#pragma unroll
  for(int c = 0; c < 4; ++c) g_z[c] = 100 + c;
  multi::array_ref<int, 0> r(g_z + k, {}); multi::array_ref<int, 0> q(g_z + j, {});
  static_cast<int&>(r) = x;
  L c = vf_range(0, 3);
  vf_assert(g_z[c] == (c == k ? x : 100 + c), "assignment of an element through a 0-D reference writes exactly that element");
  q = r;
  vf_assert(g_z[c] == ((c == k || c == j) ? x : 100 + c), "assignment between 0-D references copies the element, nothing else");
  vf_assert(r == q && !(r != q), "0-D references compare their elements");
  vf_reach("zero_dim_reference_assignment");
}
