// C14 (call-contract level): the LAPACK argument lists the adaptor builds denote, in LAPACK's column-major frame, exactly the user's
// matrix (and the triangle the user selected); workspace protocol; returned block.  dpotrf_/dgeqrf_/dgesvd_ are defined HERE and only record.
#include "own.hpp"
// potrf.hpp and geqrf.hpp cannot be included in one TU (ml::filling is declared twice), hence -DWHICH=1|2|3
#ifndef WHICH
#define WHICH 1
#endif
#if WHICH == 1
#include <boost/multi/adaptors/lapack/potrf.hpp>
#elif WHICH == 2
#include <boost/multi/adaptors/lapack/geqrf.hpp>
#else
#include <boost/multi/adaptors/lapack/gesvd.hpp>
#endif
#ifndef NB
#define NB 3
#endif
#ifndef PAD
#define PAD 2
#endif
#define MSZ 48
namespace ml = multi::lapack;
extern "C" {
double g_a[MSZ]; double g_u[MSZ]; double g_v[MSZ]; double g_s[8]; double g_tau[8];
long r_calls; char r_uplo, r_jobu, r_jobvt; long r_m, r_n, r_lda, r_ldu, r_ldvt, r_lwork1, r_lwork2; double* r_a; double* r_tau; double* r_work2; double* r_s; double* r_u; double* r_vt;
long g_info; long g_info2; long g_opt;
#if WHICH == 1
void dpotrf_(char const& uplo, int const& n, double* a, int const& lda, int& info) { ++r_calls; r_uplo = uplo; r_n = n; r_a = a; r_lda = lda; info = static_cast<int>(g_info); }
#elif WHICH == 2
void dgeqrf_(int const& m, int const& n, double* a, int const& lda, double* tau, double* work, int const& lwork, int const& info_) { int& info = const_cast<int&>(info_);
  ++r_calls; r_m = m; r_n = n; r_a = a; r_lda = lda; r_tau = tau;
  if(r_calls == 1) { r_lwork1 = lwork; *work = static_cast<double>(g_opt); info = static_cast<int>(g_info); } else { r_lwork2 = lwork; r_work2 = work; info = static_cast<int>(g_info2); } }
#else
void dgesvd_(char const& jobu, char const& jobvt, int const& mm, int const& nn, double* aa, int const& lda, double* ss, double* uu, int const& ldu, double* vt, int const& ldvt, double* work, int const& lwork, int& info) {
  ++r_calls; r_jobu = jobu; r_jobvt = jobvt; r_m = mm; r_n = nn; r_a = aa; r_lda = lda; r_s = ss; r_u = uu; r_ldu = ldu; r_vt = vt; r_ldvt = ldvt;
  if(r_calls == 1) { r_lwork1 = lwork; *work = static_cast<double>(g_opt); info = static_cast<int>(g_info); } else { r_lwork2 = lwork; r_work2 = work; info = static_cast<int>(g_info2); } }
#endif
}
static auto mk2(double* p, L s0, L s1, L n0, L n1) {
  multi::layout_t<1> l1(multi::layout_t<0>{}, s1, 0, s1 * n1);
  return multi::subarray<double, 2>(multi::layout_t<2>(l1, s0, 0, s0 * n0), p);
}
static L maxl(L a, L b) { return a > b ? a : b; }

#if WHICH == 1
VF_HARNESS(potrf) {
  L n = vf_range(1, NB); L rowmajor = vf_range(0, 1); L pad = vf_range(0, PAD); L oa = vf_range(0, 3);
  L s0 = rowmajor ? n + pad : 1; L s1 = rowmajor ? 1 : n + pad;
  auto A = mk2(g_a + oa, s0, s1, n, n);
  L up = vf_range(0, 1); g_info = vf_range(0, NB); vf_assume(g_info <= n);
  ml::filling uplo = up ? ml::filling::upper : ml::filling::lower;
  auto&& R = ml::potrf(uplo, A);
  vf_assert(r_calls == 1, "exactly one dpotrf call");
  vf_assert(r_n == n && r_a == g_a + oa && r_lda >= maxl(1, n), "(n, a, lda) denote the user's matrix and satisfy the LAPACK precondition");
  vf_assert(r_uplo == 'U' || r_uplo == 'L', "uplo flag is valid");
  // address map and triangle transport at a symbolic LAPACK position (r,c): a + r + c*lda  ==  &A[i][j]
  L r = vf_range(0, NB - 1); L c = vf_range(0, NB - 1); vf_assume(r < n && c < n);
  L i = rowmajor ? c : r; L j = rowmajor ? r : c;
  vf_assert((r_a - g_a) + r + c * r_lda == oa + i * s0 + j * s1, "LAPACK element (r,c) is the user's element (i,j) for every position");
  bool lapack_tri = r_uplo == 'U' ? r <= c : r >= c; bool user_tri = up ? i <= j : i >= j;
  vf_assert(lapack_tri == user_tri, "LAPACK references exactly the triangle the user selected");
  L k = g_info == 0 ? n : g_info - 1;
  vf_assert(R.size() == k && R.base() == A.base(), "the returned view is the leading block up to the first non-positive minor");
  vf_assert(R.stride() == s0 && boost::multi::detail::get<1>(R.strides()) == s1, "the returned block has the strides of the user's matrix (it aliases the factor in place)");
  { L c1 = boost::multi::detail::get<1>(R.sizes()); vf_assert(c1 == k || c1 == n, "the returned block has k leading rows and either the k leading or all n columns (the library returns k x k for unit leading stride, k x n otherwise)"); }
  vf_reach("potrf");
}

#elif WHICH == 2
VF_HARNESS(geqrf) {   // row-major matrix (rows x cols, unit inner stride, padded rows): LAPACK sees its transpose, M = cols, N = rows
  L rows = vf_range(1, NB); L cols = vf_range(1, NB); L pad = vf_range(0, PAD); L oa = vf_range(0, 3);
  auto A = mk2(g_a + oa, cols + pad, 1, rows, cols);
  L nt = rows < cols ? rows : cols;
  multi::subarray<double, 1> tau(multi::layout_t<1>(multi::layout_t<0>{}, 1, 0, nt), g_tau);
  g_info = vf_range(0, 1); g_info2 = vf_range(0, 1); g_opt = vf_range(1, 4);
  bool threw = false; SLOT(0);
  try { ml::geqrf(A, tau, ::A<double>()); } catch(...) { threw = true; }
  vf_assert(r_lwork1 == -1, "the first call is a workspace query (lwork = -1)");
  vf_assert(r_m == cols && r_n == rows && r_a == g_a + oa && r_lda == cols + pad && r_lda >= maxl(1, r_m) && r_tau == g_tau, "(M, N, a, lda, tau) denote the user's matrix in LAPACK's column-major frame");
  if(g_info != 0) { vf_assert(threw && r_calls == 1 && g_nalloc == 0, "a failed query throws before any workspace is allocated"); }
  else {
    vf_assert(r_calls == 2 && r_lwork2 == g_opt && g_nalloc == 1 && g_blk_n[0] == g_opt && r_work2 == reinterpret_cast<double*>(g_arena), "the workspace of exactly the returned optimal size is allocated and passed");
    vf_assert(threw == (g_info2 != 0), "throws iff info != 0");
  }
  vf_assert(live_blocks() == 0, "the workspace is released exactly once on every path");
  vf_reach("geqrf");
}

#else
VF_HARNESS(gesvd) {   // A rows x cols row-major; U rows x rows, V cols x cols, s min(rows, cols)
  L rows = vf_range(1, NB); L cols = vf_range(1, NB); L pad = vf_range(0, PAD); L padu = vf_range(0, PAD); L padv = vf_range(0, PAD);
  L oa = vf_range(0, 3); L ou = vf_range(0, 3); L ov = vf_range(0, 3);   // sub-blocks: independent origins and row paddings for A, U, V
  auto A = mk2(g_a + oa, cols + pad, 1, rows, cols); auto U = mk2(g_u + ou, rows + padu, 1, rows, rows); auto V = mk2(g_v + ov, cols + padv, 1, cols, cols);
  L ns = rows < cols ? rows : cols;
  multi::subarray<double, 1> ss(multi::layout_t<1>(multi::layout_t<0>{}, 1, 0, ns), g_s);
  g_info = vf_range(0, 1); g_info2 = vf_range(0, 1); g_opt = vf_range(1, 4);
  bool threw = false; SLOT(0);
  try { ml::gesvd(A, U, ss, V, ::A<double>()); } catch(...) { threw = true; }
  vf_assert(r_lwork1 == -1 && r_jobu == 'A' && r_jobvt == 'A', "workspace query first; all singular vectors requested");
  // LAPACK sees A^T (cols x rows): M = cols, N = rows; its U (M x M) is the user's V, its VT (N x N) the user's U
  vf_assert(r_m == cols && r_n == rows && r_a == g_a + oa && r_lda == cols + pad && r_lda >= maxl(1, r_m), "(M, N, a, lda) denote the user's matrix");
  vf_assert(r_s == g_s && r_u == g_v + ov && r_ldu == cols + padv && r_ldu >= maxl(1, r_m) && r_vt == g_u + ou && r_ldvt == rows + padu && r_ldvt >= maxl(1, r_n), "only the documented outputs (s, U, V) are passed as outputs, with valid leading dimensions");
  if(g_info == 0) { vf_assert(r_calls == 2 && r_lwork2 == g_opt && g_nalloc == 1 && g_blk_n[0] == g_opt, "workspace of the returned optimal size"); vf_assert(threw == (g_info2 != 0), "throws iff info != 0"); }
  else vf_assert(threw && g_nalloc == 0, "a failed query throws before any allocation");
  vf_assert(live_blocks() == 0, "the workspace is released exactly once on every path");
  vf_reach("gesvd");
}
#endif
