// C20 obligation 2: misuse must die in a library assertion BEFORE any out-of-bounds access.
// Built with -DLL2C_MUSTFIRE on the cbmc side: a library assertion becomes an expected-to-fail "MUSTFIRE ..." property followed by
// assume(0).  The statement after the offending call is vf_assert(false): that property holding means no input returns from the
// call; cbmc's pointer checks stay live on the path prefix, so an out-of-bounds access before the assertion is reported.
#include "spec.hpp"
#ifndef DIM
#define DIM 2
#endif
#ifndef FB
#define FB 2
#endif
extern "C" { ELEM g_mem[MEMSZ]; }
constexpr int D = DIM;

VF_HARNESS(index_out_of_range) {   // v[i], i outside the extension
  Spec<D> s = arbitrary_spec<D>(1, FB);
  auto v = view_of<D>(s, g_mem);
  L i = vf_range(-8, 8); vf_assume(i < s.d[0].first || i >= s.d[0].first + s.d[0].size);
  vf_reach("before v[i]");
  auto&& r = v[i]; (void)r;
  vf_assert(false, "v[i] with i outside the extension returned without a library assertion");
}
VF_HARNESS(const_index_out_of_range) {   // the const overload
  Spec<D> s = arbitrary_spec<D>(1, FB);
  auto const v = view_of<D>(s, g_mem);
  L i = vf_range(-8, 8); vf_assume(i < s.d[0].first || i >= s.d[0].first + s.d[0].size);
  vf_reach("before cv[i]");
  auto&& r = v[i]; (void)r;
  vf_assert(false, "const v[i] with i outside the extension returned without a library assertion");
}
#if DIM >= 2
VF_HARNESS(inner_index_out_of_range) {   // v[i][j] / v(i,j): i valid, j outside
  Spec<D> s = arbitrary_spec<D>(1, FB);
  auto v = view_of<D>(s, g_mem);
  L i = vf_nondet_long(); vf_assume(s.d[0].first <= i && i < s.d[0].first + s.d[0].size);
  L j = vf_range(-8, 8); vf_assume(j < s.d[1].first || j >= s.d[1].first + s.d[1].size);
  L which = vf_range(0, 1);
  vf_reach("before v[i][j]");
  if(which == 0) { auto&& r = v[i][j]; (void)r; } else { auto&& r = v(i, j); (void)r; }
  vf_assert(false, "v[i][j] / v(i,j) with j outside the extension returned without a library assertion");
}
#endif
#if DIM >= 2   // the 1-D sliced() has no bounds assertion at all: it accepts first > last for reversed ranges (sliced(3, 0, -1) is a tested use), so nothing is claimed for D = 1
VF_HARNESS(range_out_of_range) {   // sliced(a,b) / v({a,b}) with a non-empty range that leaves the extension: indexing the result at ITS OWN first and last valid index must be stopped (the result designates storage outside the source)
  Spec<D> s = arbitrary_spec<D>(1, FB);
  auto v = view_of<D>(s, g_mem);
  L a = vf_range(-8, 8); L b = vf_range(-8, 9); vf_assume(a < b);
  vf_assume(a < s.d[0].first || b > s.d[0].first + s.d[0].size);
  L which = vf_range(0, 2);
  vf_reach("before the out-of-range range");
  if(which == 0) { auto r = v.sliced(a, b); auto&& e = r[r.extension().back()]; (void)e; auto&& f = r[r.extension().front()]; (void)f; }
  else if(which == 1) { auto r = v({a, b}); auto&& e = r[r.extension().back()]; (void)e; auto&& f = r[r.extension().front()]; (void)f; }
  else { auto const& cv = v; auto r = cv.sliced(a, b); auto&& e = r[r.extension().back()]; (void)e; auto&& f = r[r.extension().front()]; (void)f; }
  vf_assert(false, "a range outside the extension was accepted and its end points were indexed without a library assertion");
}
#endif
VF_HARNESS(elements_at_out_of_range) {
  Spec<D> s = arbitrary_spec<D>(1, 0);
  auto v = view_of<D>(s, g_mem);
  L k = vf_range(0, 200); vf_assume(k >= spec_num_elements(s));
  vf_reach("before elements_at");
  auto&& r = v.elements_at(k); (void)r;
  vf_assert(false, "elements_at(k) with k >= num_elements returned without a library assertion");
}

// two views over disjoint halves of the storage with different extents: every form of view assignment must be stopped
static void two_specs(Spec<D>& a, Spec<D>& b) {
  a = arbitrary_spec<D>(1, 0, MEMSZ / 2);
  b = arbitrary_spec<D>(1, 0, MEMSZ / 2); b.origin += MEMSZ / 2;
  bool differ = false;
#pragma unroll
  for(int k = 0; k < D; ++k) differ = differ || a.d[k].size != b.d[k].size;
  vf_assume(differ);
}
VF_HARNESS(assign_different_extents) {
  Spec<D> a; Spec<D> b; two_specs(a, b);
  auto v = view_of<D>(a, g_mem); auto w = view_of<D>(b, g_mem);
  L form = vf_range(0, 3);
  vf_reach("before assignment");
  if(form == 0) { v = w; }                                  // subarray& = subarray const&
  else if(form == 1) { auto const& cw = w; v() = cw(); }    // subarray&& = const_subarray
  else if(form == 2) { v = std::move(w); }                  // subarray& = subarray&&
  else { view_of<D>(a, g_mem) = w; }                        // temporary on the left
  vf_assert(false, "assignment between views of different extents returned without a library assertion");
}
