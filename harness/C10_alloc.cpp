// C10: storage stays with the allocator that produced it; propagation follows the traits.
// Allocator SA = A<T, CFG_POCCA, CFG_POCMA, CFG_POCS, AlwaysEqual=false> carries an instance id; select_on_container_copy_construction returns id+100.
// The ledger records the allocating instance per block and deallocate asserts an equal instance (own.hpp).  The trait combination is a
// compile-time configuration (-DPOCCA/-DPOCMA/-DPOCS = 0|1), the instance ids of the two arrays and of a supplied allocator are symbolic.
// std::pmr::polymorphic_allocator has exactly the trait values CFG_POCCA=CFG_POCMA=CFG_POCS=false, is_always_equal=false (its memory_resource
// dispatches through a vtable into libstdc++.so, which is not in the IR): that configuration stands in for pmr arrays on different resources.
#include "own.hpp"
#ifndef DIM
#define DIM 1
#endif
#ifndef NB
#define NB 2
#endif
#ifndef CFG_POCCA
#define CFG_POCCA 0
#endif
#ifndef CFG_POCMA
#define CFG_POCMA 0
#endif
#ifndef CFG_POCS
#define CFG_POCS 0
#endif
constexpr int D = DIM;
using T = int;
using SA = A<T, CFG_POCCA != 0, CFG_POCMA != 0, CFG_POCS != 0, false>;
using Arr = multi::array<T, D, SA>;
constexpr int NE = D == 1 ? NB : NB * NB;

static void fill(Arr& a, L base) { L ne = a.num_elements(); auto e = a.elements();
#pragma unroll
  for(int k = 0; k < NE; ++k) if(k < ne) e[k] = static_cast<int>(base + k); }
static void check_vals(Arr& a, L const* n, L base) {
  vf_assert(has_extents<D>(a, n), "extents equal the model value");
  if(prod<D>(n) > 0) { L i[D]; draw_tuple<D>(n, i); vf_assert(at<D>(a, i) == base + flat<D>(n, i), "element equals the model value"); }
}
// every live block of array x was produced by an allocator equal to x.get_allocator()
static void check_owner(Arr& x) {
  if(x.num_elements() == 0) return;
  long k = (reinterpret_cast<char*>(x.data_elements()) - g_arena) / (SLOT_CELLS * 8);
  vf_assert(g_blk_live[k] == 1 && g_blk_owner[k] == x.get_allocator().id, "the array's storage was obtained through its own allocator as reported by get_allocator()");
}
struct Two { L na[D]; L nb[D]; L ia; L ib; };
#define MAKE_TWO(t, a, b) Two t; draw_extents<D>(t.na, 1, NB); draw_extents<D>(t.nb, 1, NB); t.ia = vf_range(1, 2); t.ib = vf_range(1, 2); \
  SLOT(0); Arr a(exts<D>(t.na), 0, SA(t.ia)); fill(a, 10); SLOT(2); Arr b(exts<D>(t.nb), 0, SA(t.ib)); fill(b, 40); SLOT(4)

VF_HARNESS(copy_construct) {   // select_on_container_copy_construction
  L n[D]; draw_extents<D>(n, 1, NB); L ia = vf_range(1, 2);
  { SLOT(0); Arr a(exts<D>(n), 0, SA(ia)); fill(a, 10); SLOT(2);
    Arr c(a);
    vf_assert(c.get_allocator().id == ia + 100, "copy construction uses select_on_container_copy_construction");
    check_owner(c); check_owner(a); check_vals(c, n, 10);
    SLOT(4); L isup = vf_range(1, 3); Arr d(a, SA(isup));
    vf_assert(d.get_allocator().id == isup, "allocator-extended copy constructor uses the supplied allocator");
    check_owner(d); check_vals(d, n, 10); }
  check_all_released();
  vf_reach("copy_construct");
}
VF_HARNESS(move_construct) {   // move construction takes the allocator and the storage; allocator-extended move with an unequal allocator must not adopt the block
  L n[D]; draw_extents<D>(n, 1, NB); L ia = vf_range(1, 2); L isup = vf_range(1, 2);
  { SLOT(0); Arr a(exts<D>(n), 0, SA(ia)); fill(a, 10); SLOT(2);
    L form = vf_range(0, 1);
    if(form == 0) { Arr c(std::move(a)); vf_assert(c.get_allocator().id == ia, "move construction takes the source's allocator"); check_owner(c); check_vals(c, n, 10); }
    else { Arr c(std::move(a), SA(isup)); vf_assert(c.get_allocator().id == isup, "allocator-extended move constructor uses the supplied allocator"); check_owner(c); check_vals(c, n, 10); }
    check_owner(a); }
  check_all_released();
  vf_reach("move_construct");
}
VF_HARNESS(copy_assign) {
  { MAKE_TWO(t, a, b);
    b = a;
    vf_assert(b.get_allocator().id == (CFG_POCCA ? t.ia : t.ib), "copy assignment replaces the allocator exactly when propagate_on_container_copy_assignment says so");
    check_owner(b); check_owner(a); check_vals(b, t.na, 10); }
  check_all_released();
  vf_reach("copy_assign");
}
VF_HARNESS(move_assign) {
  { MAKE_TWO(t, a, b);
    b = std::move(a);
    vf_assert(b.get_allocator().id == (CFG_POCMA ? t.ia : t.ib), "move assignment replaces the allocator exactly when propagate_on_container_move_assignment says so");
    check_owner(b); check_owner(a); check_vals(b, t.na, 10); }
  check_all_released();
  vf_reach("move_assign");
}
VF_HARNESS(swap_arrays) {
  { MAKE_TWO(t, a, b);
    if(!CFG_POCS) vf_assume(t.ia == t.ib);   // swapping containers with unequal non-propagating allocators is undefined behaviour by the standard's container rules
    swap(a, b);
    vf_assert(a.get_allocator().id == (CFG_POCS ? t.ib : t.ia) && b.get_allocator().id == (CFG_POCS ? t.ia : t.ib), "swap replaces the allocators exactly when propagate_on_container_swap says so");
    check_owner(a); check_owner(b); check_vals(a, t.nb, 40); check_vals(b, t.na, 10); }
  check_all_released();
  vf_reach("swap_arrays");
}
VF_HARNESS(reextent_keeps_allocator) {
  L n[D]; draw_extents<D>(n, 1, NB); L m[D]; draw_extents<D>(m, 1, NB); L ia = vf_range(1, 2);
  { SLOT(0); Arr a(exts<D>(n), 0, SA(ia)); fill(a, 10); SLOT(2);
    L form = vf_range(0, 1);
    if(form == 0) { a.reextent(exts<D>(m)); } else { a.reextent(exts<D>(m), 7); }
    vf_assert(a.get_allocator().id == ia, "reextent keeps the allocator");
    check_owner(a); }
  check_all_released();
  vf_reach("reextent_keeps_allocator");
}

// assignment from a view (const lvalue, mutable lvalue, rvalue), equal or different extents: whatever the path inside the library, afterwards the array's
// storage must have been produced by an allocator equal to the one get_allocator() reports, and every block is released through an equal allocator (ledger)
extern "C" { int g_vsrc[NE + 2]; }
template<std::size_t... I> static auto mkview(int* base, L const* n, std::index_sequence<I...>) { return multi::array_ref<int, D>(multi::extensions_t<D>{multi::index_extension(n[I])...}, base); }
VF_HARNESS(assign_from_view) {
  L n[D]; draw_extents<D>(n, 1, NB); L m[D]; draw_extents<D>(m, 1, NB); L ia = vf_range(1, 2);
#pragma unroll
  for(int k = 0; k < NE + 2; ++k) g_vsrc[k] = 70 + k;
  { SLOT(0); Arr a(exts<D>(n), 0, SA(ia)); fill(a, 10); SLOT(2);
    auto ref = mkview(g_vsrc, m, std::make_index_sequence<D>{});
    L form = vf_range(0, 2);
    if(form == 0) { auto const& cv = ref; a = cv(); } else if(form == 1) { auto v = ref(); a = v; } else { a = ref(); }
    check_owner(a); check_vals(a, m, 70);
    vf_assert(CFG_POCMA || a.get_allocator().id == ia, "assignment from a view keeps a non-propagating allocator"); }
  check_all_released();
  vf_reach("assign_from_view");
}
