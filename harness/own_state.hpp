// own_state.hpp -- pre-state generator and model checks shared by the owning-array harnesses (C04, C06, C08, C09, C10, C17).
// Parameters (macros): DIM, NB, ELT.  Contents are position-coded (base + flat position).
#pragma once
#include "own.hpp"
#ifndef DIM
#define DIM 2
#endif
#ifndef NB
#define NB 2
#endif
#ifndef ELT
#define ELT int
#endif
constexpr int D = DIM;
using T = ELT;
using Arr = multi::array<T, D, A<T>>;
constexpr int NE = D == 1 ? NB : (D == 2 ? NB * NB : NB * NB * NB);

// a slot holding an array constructed in place (no reliance on move/elision to produce the pre-state)
struct Slot {   // the union keeps the storage TYPED as an Arr (cbmc then tracks its pointer/integer members individually)
  union { Arr buf[1]; }; Arr* p = nullptr; L n[D]; L base = 0; bool coded = false;
  Slot() {} ~Slot() {}
  Arr& operator*() { return *p; }
  void destroy() { if(p) { p->~Arr(); p = nullptr; } }
};
static void code_contents(Slot& s, L base) {   // element at flat position k := base + k
  s.base = base; s.coded = true;
  L ne = prod<D>(s.n);
  auto e = (*s).elements();
#pragma unroll
  for(int k = 0; k < NE; ++k) if(k < ne) e[k] = T(static_cast<int>(base + k));
}
// pre-state kinds (compile-time: one harness entry per kind = case split done here rather than by the SAT solver):
// 0 default-constructed, 1 extents(non-empty)+fill value, 2 extents(non-empty) only, 3 constructed then clear()ed, 4 moved-from,
// 5 EMPTY shape (at least one zero extent) from the sizing constructor
template<int kind> static void make_state(Slot& s, L base, L slot = 0) {
  SLOT(slot);
#pragma unroll
  for(int k = 0; k < D; ++k) s.n[k] = 0;
  if constexpr(kind == 0) { s.p = new(s.buf) Arr(); }
  else if constexpr(kind == 1) { draw_extents<D>(s.n, 1, NB); s.p = new(s.buf) Arr(exts<D>(s.n), T(5)); code_contents(s, base); }
  else if constexpr(kind == 2) { draw_extents<D>(s.n, 1, NB); s.p = new(s.buf) Arr(exts<D>(s.n)); code_contents(s, base); }
  else if constexpr(kind == 3) { draw_extents<D>(s.n, 1, NB); s.p = new(s.buf) Arr(exts<D>(s.n), T(6)); (*s).clear();
#pragma unroll
    for(int k = 0; k < D; ++k) s.n[k] = 0; }
  else if constexpr(kind == 4) { draw_extents<D>(s.n, 1, NB); s.p = new(s.buf) Arr(exts<D>(s.n), T(7)); { Arr tmp(std::move(*s)); }
#pragma unroll
    for(int k = 0; k < D; ++k) s.n[k] = 0; }
  else { draw_extents<D>(s.n, 0, NB); vf_assume(prod<D>(s.n) == 0); s.p = new(s.buf) Arr(exts<D>(s.n), T(8)); s.coded = true; s.base = base; }
}
#define FOR_KINDS(X) X(0) X(1) X(2) X(3) X(4) X(5)
// the array equals the model value (extents n, element at flat k == base + k), at a symbolic tuple
static void check_value(Arr& a, L const* n, L base, const char*) {
  vf_assert(has_extents<D>(a, n), "extents equal the model value");
  vf_assert(a.num_elements() == prod<D>(n), "num_elements equals the model value");
  if(prod<D>(n) > 0) {
    L i[D]; draw_tuple<D>(n, i);
    vf_assert(val(at<D>(a, i)) == base + flat<D>(n, i), "element equals the model value");
    vf_assert(in_arena(a.data_elements()), "storage comes from the array's allocator");
  }
}
static void check_independent(Arr& x, Arr& y, L const* n, L bx, L by) {   // same extents n; mutation of one is invisible in the other
  if(prod<D>(n) == 0) return;
  vf_assert(x.data_elements() != y.data_elements(), "the two arrays do not share storage");
  L i[D]; draw_tuple<D>(n, i);
  at<D>(x, i) = T(991);
  vf_assert(val(at<D>(y, i)) == by + flat<D>(n, i), "a write to one array is invisible in the other");
  at<D>(y, i) = T(992);
  vf_assert(val(at<D>(x, i)) == 991, "a write to the other array is invisible in the first");
  (void)bx;
}
static void check_valid_empty(Arr& a) {   // empty yet valid: observable as empty, assignable, (destruction is executed by the caller)
  vf_assert(a.is_empty() && a.num_elements() == 0 && a.size() == 0, "array is empty");
}

