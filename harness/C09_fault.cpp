// C09: failures (allocation or element exceptions) leave no leak and valid arrays.
// The fault schedule is a solver variable: every A::allocate and every Tr copy/move construction/assignment increments g_ops and the
// one whose ordinal equals g_fail_at throws Exc (0 = no fault).  ELT=Tr.  One operation per entry, from a generator pre-state.
#include "own_state.hpp"
#ifndef KMAX
#define KMAX 12
#endif
static void arm() { g_ops = 0; g_fail_at = vf_range(0, KMAX); }
static void disarm() { g_fail_at = 0; }
// a surviving array is valid: extents consistent with live elements (every element readable = alive), assignable, destructible
static void check_survivor(Arr& a, L slot) {
  L n = a.num_elements();
  vf_assert(n >= 0 && n <= NE, "surviving array reports a sane number of elements");
  if(n > 0) {
    L k = vf_nondet_long(); vf_assume(0 <= k && k < n);
    (void)val(a.elements()[k]);                      // Tr::used(): "never read while not alive"
    vf_assert(in_arena(a.data_elements()), "surviving non-empty array owns storage from its allocator");
  }
  SLOT(slot);
  L m[D]; draw_extents<D>(m, 1, NB);
  a = Arr(exts<D>(m), T(9));                          // assignable
  vf_assert(has_extents<D>(a, m), "surviving array accepts a new value");
}
#define TRY(stmt) bool threw = false; try { stmt; } catch(Exc&) { threw = true; } disarm(); vf_assert(threw == (g_fail_at_saved != 0 && g_ops >= g_fail_at_saved), "the injected exception reaches the caller")

template<int KB> static void t_copy_assign() {
  Slot a; make_state<1>(a, 10, 0); Slot b; make_state<KB>(b, 40, 2); SLOT(4);
  arm(); L const g_fail_at_saved = g_fail_at; long const allocs = g_nalloc;
  bool same = true;
#pragma unroll
  for(int k = 0; k < D; ++k) same = same && a.n[k] == b.n[k];
  TRY(*b = *a);
  if(!threw) check_value(*b, a.n, 10, "assigned");
  if(same && b.coded) vf_assert(g_nalloc == allocs, "same-extent assignment does not allocate");
  check_value(*a, a.n, 10, "source unchanged");
  check_survivor(*b, 6);
  b.destroy(); a.destroy(); check_all_released();
}
VF_HARNESS(copy_assign_k1) { t_copy_assign<1>(); vf_reach("copy_assign_k1"); }
VF_HARNESS(copy_assign_k0) { t_copy_assign<0>(); vf_reach("copy_assign_k0"); }
VF_HARNESS(copy_assign_k5) { t_copy_assign<5>(); vf_reach("copy_assign_k5"); }

template<bool KF> static void t_ctor_extents_value() {   // a failed constructor leaves nothing behind
  L n[D]; draw_extents<D>(n, 1, NB); SLOT(0);
  arm(); L const g_fail_at_saved = g_fail_at;
  vf_assume(KF == (g_fail_at >= 2));   // known finding C09-ctor-leak: an element construction (ops >= 2; op 1 is the allocation) throws inside a constructor
  TRY(Arr a(exts<D>(n), T(4)); (void)a);
  check_all_released();
}
VF_HARNESS(ctor_extents_value) { t_ctor_extents_value<false>(); vf_reach("ctor_extents_value"); }
VF_HARNESS(ctor_extents_value_kf) { t_ctor_extents_value<true>(); vf_reach("ctor_extents_value_kf"); }
template<bool KF> static void t_ctor_extents() {
  L n[D]; draw_extents<D>(n, 1, NB); SLOT(0);
  arm(); L const g_fail_at_saved = g_fail_at;
  vf_assume(KF == (g_fail_at >= 2));   // known finding C09-ctor-leak: an element construction (ops >= 2; op 1 is the allocation) throws inside a constructor
  TRY(Arr a(exts<D>(n)); (void)a);
  check_all_released();
}
VF_HARNESS(ctor_extents) { t_ctor_extents<false>(); vf_reach("ctor_extents"); }
VF_HARNESS(ctor_extents_kf) { t_ctor_extents<true>(); vf_reach("ctor_extents_kf"); }
template<bool KF> static void t_ctor_copy() {
  Slot a; make_state<1>(a, 10, 0); SLOT(2);
  arm(); L const g_fail_at_saved = g_fail_at;
  vf_assume(KF == (g_fail_at >= 2));   // known finding C09-ctor-leak
  TRY(Arr c(*a); (void)c);
  check_value(*a, a.n, 10, "source unchanged");
  a.destroy(); check_all_released();
}
VF_HARNESS(ctor_copy) { t_ctor_copy<false>(); vf_reach("ctor_copy"); }
VF_HARNESS(ctor_copy_kf) { t_ctor_copy<true>(); vf_reach("ctor_copy_kf"); }
template<bool KF> static void t_ctor_from_view() {
  Slot a; make_state<1>(a, 10, 0); SLOT(2);
  arm(); L const g_fail_at_saved = g_fail_at;
  vf_assume(KF == (g_fail_at >= 2));   // known finding C09-ctor-leak
  TRY(Arr c((*a)()); (void)c);
  check_value(*a, a.n, 10, "source unchanged");
  a.destroy(); check_all_released();
}
VF_HARNESS(ctor_from_view) { t_ctor_from_view<false>(); vf_reach("ctor_from_view"); }
VF_HARNESS(ctor_from_view_kf) { t_ctor_from_view<true>(); vf_reach("ctor_from_view_kf"); }
VF_HARNESS(move_and_swap_do_not_allocate_or_throw) {
  Slot a; make_state<1>(a, 10, 0); Slot b; make_state<1>(b, 40, 2); SLOT(4);
  arm(); L const g_fail_at_saved = g_fail_at; long const allocs = g_nalloc; long const ops = g_ops;
  L form = vf_range(0, 2);
  bool threw = false;
  try { if(form == 0) { *b = std::move(*a); } else if(form == 1) { swap(*a, *b); } else { Arr c(std::move(*a)); *a = std::move(c); } } catch(Exc&) { threw = true; }
  disarm();
  vf_assert(!threw && g_nalloc == allocs && g_ops == ops, "move and swap of resizable arrays neither allocate nor touch elements");
  (void)g_fail_at_saved;
  b.destroy(); a.destroy(); check_all_released();
  vf_reach("move_and_swap_do_not_allocate_or_throw");
}
template<bool KF> static void t_assign_from_view() {   // array = view of another array (different extents: reallocation; same extents: in place)
  Slot a; make_state<1>(a, 10, 0); Slot b; make_state<1>(b, 40, 2); SLOT(4);
  arm(); L const g_fail_at_saved = g_fail_at;
  { bool same = true;
#pragma unroll
    for(int k = 0; k < D; ++k) same = same && a.n[k] == b.n[k];
    vf_assume(KF == (!same && g_fail_at >= 2)); }   // known finding C09-ctor-leak: different extents go through array(view), whose element copies may throw
  TRY(*b = (*a)());
  if(!threw) check_value(*b, a.n, 10, "assigned");
  check_value(*a, a.n, 10, "source unchanged");
  check_survivor(*b, 6);
  b.destroy(); a.destroy(); check_all_released();
}
VF_HARNESS(assign_from_view) { t_assign_from_view<false>(); vf_reach("assign_from_view"); }
VF_HARNESS(assign_from_view_kf) { t_assign_from_view<true>(); vf_reach("assign_from_view_kf"); }
VF_HARNESS(view_assign_does_not_allocate) {   // assignment through views: element exceptions propagate, nothing allocated, arrays stay valid
  Slot a; make_state<1>(a, 10, 0); Slot b; make_state<1>(b, 40, 2); SLOT(4);
  bool same = true;
#pragma unroll
  for(int k = 0; k < D; ++k) same = same && a.n[k] == b.n[k];
  vf_assume(same);
  arm(); L const g_fail_at_saved = g_fail_at; long const allocs = g_nalloc;
  TRY((*b)() = (*a)());
  vf_assert(g_nalloc == allocs, "assignment through views does not allocate");
  check_value(*a, a.n, 10, "source unchanged");
  check_survivor(*b, 6);
  b.destroy(); a.destroy(); check_all_released();
  vf_reach("view_assign_does_not_allocate");
}
template<int FORM> static void t_reextent() {
  Slot a; make_state<1>(a, 10, 0); SLOT(2);
  L m[D]; draw_extents<D>(m, 0, NB);
  arm(); L const g_fail_at_saved = g_fail_at;
  TRY(if(FORM == 0) { (*a).reextent(exts<D>(m)); } else if(FORM == 1) { (*a).reextent(exts<D>(m), T(77)); } else { std::move(*a).reextent(exts<D>(m)); });
  if(threw && FORM != 2) check_value(*a, a.n, 10, "a failed reextent leaves the array unchanged");
  check_survivor(*a, 5);
  a.destroy(); check_all_released();
}
VF_HARNESS(reextent) { t_reextent<0>(); vf_reach("reextent"); }
VF_HARNESS(reextent_fill) { t_reextent<1>(); vf_reach("reextent_fill"); }
VF_HARNESS(reextent_rvalue) { t_reextent<2>(); vf_reach("reextent_rvalue"); }

#if DIM == 1
VF_HARNESS(assign_range) {   // assign(first,last) / = {list}: same count assigns in place (an element assignment may throw), another count goes through array(first,last)
  Slot a; make_state<1>(a, 10, 0); SLOT(2);
  T src[3] = {T(71), T(72), T(73)};
  L cnt = vf_range(1, 2); L form = vf_range(0, 1);   // at most NB (= 2) elements: the survivor check bounds num_elements by NE
  arm(); L const g_fail_at_saved = g_fail_at;
  vf_assume(cnt == a.n[0] || g_fail_at <= 1);   // another count constructs array(first,last): an element fault there is the known finding C09-ctor-leak (ctor_* twins)
  if(form == 1) vf_assume(cnt == 2);
  bool threw = false; try { if(form == 0) { (*a).assign(src, src + cnt); } else { *a = {src[0], src[1]}; } } catch(Exc&) { threw = true; } disarm();
  vf_assert(threw == (g_fail_at_saved != 0 && g_ops >= g_fail_at_saved), "the injected exception reaches the caller");
  if(!threw) { vf_assert((*a).size() == cnt, "assign(first,last) gives last-first elements"); L k = vf_nondet_long(); vf_assume(0 <= k && k < cnt); vf_assert(val((*a)[k]) == 71 + k, "and exactly the requested contents"); }
  check_survivor(*a, 5);
  a.destroy(); check_all_released();
  vf_reach("assign_range");
}
#endif
