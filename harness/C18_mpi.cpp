// C18 (call-contract level): the (buffer, count, datatype) message built from elements() of a view denotes exactly the view's elements
// in canonical order.  MPI_Type_* are defined HERE over a small table of type nodes; the oracle is MPI's typemap semantics written as
// an iterative descent over that table.  Source = ARBITRARY view (symbolic extents, strides, origin) of int / double.
#define VF_NO_GMEM
#ifndef ELEM
#define ELEM int
#endif
#include "spec.hpp"
#include <boost/multi/adaptors/mpi.hpp>
#ifndef DIM
#define DIM 2
#endif
constexpr int D = DIM;
#ifndef MEMSZ2
#define MEMSZ2 40
#endif
#define NNODE 12
struct Node { long kind, count, stride, old, extent, nelem, committed, freed, used_after_free; };   // kind: 1 hvector(blocklen 1), 2 resized
extern "C" {
ELEM g_buf[MEMSZ2];
Node g_node[NNODE]; long g_nnode; long g_bad;
static long node_of(MPI_Datatype h) { return (reinterpret_cast<char*>(h) - reinterpret_cast<char*>(g_node)) / static_cast<long>(sizeof(Node)); }
static bool is_node(MPI_Datatype h) { return vf_within(h, g_node, sizeof g_node); }
static MPI_Datatype handle(long k) { return reinterpret_cast<MPI_Datatype>(&g_node[k]); }
static long nelem_of(MPI_Datatype h) { return is_node(h) ? g_node[node_of(h)].nelem : 1; }
static void touch(MPI_Datatype h) { if(is_node(h) && g_node[node_of(h)].freed) { g_node[node_of(h)].used_after_free = 1; g_bad = 1; } }
int MPI_Type_size(MPI_Datatype dt, int* size) { touch(dt); *size = (dt == MPI_INT || dt == MPI_FLOAT) ? 4 : (dt == MPI_DOUBLE ? 8 : 0); if(*size == 0) g_bad = 1; return MPI_SUCCESS; }
int MPI_Type_create_hvector(int count, int blocklen, MPI_Aint stride, MPI_Datatype old, MPI_Datatype* nw) {
  touch(old); if(blocklen != 1 || g_nnode >= NNODE) g_bad = 1;
  long k = g_nnode < NNODE ? g_nnode : NNODE - 1; g_nnode = k + 1;
  g_node[k] = Node{1, count, stride, is_node(old) ? node_of(old) : -1, 0, count * nelem_of(old), 0, 0, 0}; *nw = handle(k); return MPI_SUCCESS; }
int MPI_Type_create_resized(MPI_Datatype old, MPI_Aint lb, MPI_Aint extent, MPI_Datatype* nw) {
  touch(old); if(lb != 0 || g_nnode >= NNODE) g_bad = 1;
  long k = g_nnode < NNODE ? g_nnode : NNODE - 1; g_nnode = k + 1;
  g_node[k] = Node{2, 1, 0, is_node(old) ? node_of(old) : -1, extent, nelem_of(old), 0, 0, 0}; *nw = handle(k); return MPI_SUCCESS; }
int MPI_Type_commit(MPI_Datatype* dt) { touch(*dt); if(is_node(*dt)) g_node[node_of(*dt)].committed = 1; else g_bad = 1; return MPI_SUCCESS; }
int MPI_Type_free(MPI_Datatype* dt) { if(is_node(*dt)) { if(g_node[node_of(*dt)].freed) g_bad = 1; g_node[node_of(*dt)].freed += 1; } else g_bad = 1; *dt = MPI_DATATYPE_NULL; return MPI_SUCCESS; }
int MPI_Type_vector(int, int, int, MPI_Datatype, MPI_Datatype*) { g_bad = 1; return MPI_SUCCESS; }
int MPI_Type_dup(MPI_Datatype, MPI_Datatype*) { g_bad = 1; return MPI_SUCCESS; }
}
namespace mpi = multi::mpi;
// byte displacement of the e-th basic element of the message (count repetitions of top): MPI typemap semantics
static L typemap_disp(long top, L e) {
  L ne = g_node[top].nelem; L disp = (e / ne) * g_node[top].extent; L r = e % ne; long t = top;
#pragma unroll
  for(int depth = 0; depth < 2 * D + 2; ++depth) {
    if(t < 0) break;
    if(g_node[t].kind == 2) { t = g_node[t].old; }
    else { L sub = g_node[t].old >= 0 ? g_node[g_node[t].old].nelem : 1; disp += (r / sub) * g_node[t].stride; r = r % sub; t = g_node[t].old; }
  }
  return disp;
}
VF_HARNESS(message_denotes_elements) {
  Spec<D> s = arbitrary_spec<D>(1, 0, MEMSZ2);
  auto v = view_of<D, ELEM>(s, g_buf);
  L const ne = spec_num_elements(s);
  { mpi::message<> msg(v.elements());
    vf_assert(msg.buffer() == static_cast<void*>(g_buf + s.origin), "buffer is the first viewed element");
    vf_assert(is_node(msg.datatype()), "datatype is a created handle");
    long top = node_of(msg.datatype());
    vf_assert(g_node[top].committed == 1 && g_node[top].freed == 0, "the datatype handed out is committed (and not freed) while the message lives");
    vf_assert(static_cast<L>(msg.count()) * g_node[top].nelem == ne, "count x (elements per datatype) equals num_elements: no more, no fewer");
    L k = vf_nondet_long(); vf_assume(0 <= k && k < ne);
    // k-th element in canonical order (last index fastest)
    L idx[D]; L rem = k;
#pragma unroll
    for(int j = D - 1; j >= 0; --j) { idx[j] = rem % s.d[j].size; rem = rem / s.d[j].size; }
    L want = 0;
#pragma unroll
    for(int j = 0; j < D; ++j) want += idx[j] * s.d[j].stride;
    vf_assert(typemap_disp(top, k) == want * static_cast<L>(sizeof(ELEM)), "the k-th element of the message is the k-th element of the view in canonical order");
    vf_assert(g_bad == 0, "no unexpected MPI call, no handle used after free");
  }
  bool all_freed_once = true;
#pragma unroll
  for(int n = 0; n < NNODE; ++n) if(n < g_nnode) all_freed_once = all_freed_once && g_node[n].freed == 1 && g_node[n].used_after_free == 0;
  vf_assert(all_freed_once && g_bad == 0, "every created datatype is freed exactly once and none is used after being freed");
  vf_reach("message_denotes_elements");
}
