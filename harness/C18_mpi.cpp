// C18 (call-contract level): the (buffer, count, datatype) message built from elements() of a view denotes exactly the view's elements
// in canonical order.  MPI_Type_* are defined HERE over a small table of type nodes; the oracle is MPI's typemap semantics written as
// an iterative descent over that table.  Source = ARBITRARY view (symbolic extents, strides, origin) of int / double.
#define VF_NO_GMEM
#ifndef ELEM
#define ELEM int
#endif
#include "spec.hpp"
#include <boost/multi/adaptors/mpi.hpp>
#ifndef DIM
#define DIM 2
#endif
constexpr int D = DIM;
#ifndef MEMSZ2
#define MEMSZ2 40
#endif
#define NNODE 12
// One node per derived datatype: count blocks of blocklen copies of `old`, block k at byte offset k*stride (MPI_Type_create_hvector; MPI_Type_vector
// and MPI_Type_contiguous are special cases), or `old` with its extent replaced (MPI_Type_create_resized with lb = 0; MPI_Type_dup keeps the extent).
// MPI's typemap semantics: extent(hvector) = (count-1)*stride + blocklen*extent(old) for non-negative strides; the e-th basic element of a node lies at
// (e / (blocklen*n_old))*stride + ((e / n_old) % blocklen)*extent(old) + displacement_old(e % n_old).
struct Node { long kind, count, blocklen, stride, old, extent, nelem, committed, freed, used_after_free; };   // kind: 1 hvector family, 2 resized / dup
extern "C" {
ELEM g_buf[MEMSZ2];
Node g_node[NNODE]; long g_nnode; long g_bad; long g_unmodelled;
static long node_of(MPI_Datatype h) {   // by comparison, not by pointer difference / sizeof(Node)
  long r = 0;
#pragma unroll
  for(int k = 0; k < NNODE; ++k) if(reinterpret_cast<void*>(h) == static_cast<void*>(&g_node[k])) r = k;
  return r; }
static bool is_node(MPI_Datatype h) { return vf_within(h, g_node, sizeof g_node); }
static MPI_Datatype handle(long k) { return reinterpret_cast<MPI_Datatype>(&g_node[k]); }
static long basic_size(MPI_Datatype dt) { return (dt == MPI_INT || dt == MPI_FLOAT) ? 4 : (dt == MPI_DOUBLE ? 8 : 0); }
static long nelem_of(MPI_Datatype h) { return is_node(h) ? g_node[node_of(h)].nelem : 1; }
static long extent_of(MPI_Datatype h) { return is_node(h) ? g_node[node_of(h)].extent : basic_size(h); }
static void touch(MPI_Datatype h) { if(is_node(h)) { if(g_node[node_of(h)].freed) { g_node[node_of(h)].used_after_free = 1; g_bad = 1; } } else if(basic_size(h) == 0) g_unmodelled = 1; }
static int new_node(long kind, long count, long blocklen, long stride, MPI_Datatype old, long extent, MPI_Datatype* nw) {
  touch(old); if(g_nnode >= NNODE) g_unmodelled = 1;
  if(count < 0 || blocklen < 0 || stride < 0) g_unmodelled = 1;   // negative strides / counts: outside this model (reported as inconclusive, not as a violation)
  long k = g_nnode < NNODE ? g_nnode : NNODE - 1; g_nnode = k + 1;
  g_node[k] = Node{kind, count, blocklen, stride, is_node(old) ? node_of(old) : -1, extent, count * blocklen * nelem_of(old), 0, 0, 0}; *nw = handle(k); return MPI_SUCCESS; }
int MPI_Type_size(MPI_Datatype dt, int* size) { touch(dt); if(is_node(dt)) { *size = static_cast<int>(g_node[node_of(dt)].nelem) * static_cast<int>(sizeof(ELEM)); } else { *size = (dt == MPI_INT || dt == MPI_FLOAT) ? 4 : (dt == MPI_DOUBLE ? 8 : 0); } return MPI_SUCCESS; }
static long hv_extent(long count, long blocklen, long stride, long ext_old) { return count > 0 ? count * stride - stride + blocklen * ext_old : 0; }
int MPI_Type_create_hvector(int count, int blocklen, MPI_Aint stride, MPI_Datatype old, MPI_Datatype* nw) {
  long const c = count, b = blocklen, st = stride; return new_node(1, c, b, st, old, hv_extent(c, b, st, extent_of(old)), nw); }
int MPI_Type_vector(int count, int blocklen, int stride, MPI_Datatype old, MPI_Datatype* nw) {
  long const c = count, b = blocklen, st = static_cast<long>(stride) * extent_of(old); return new_node(1, c, b, st, old, hv_extent(c, b, st, extent_of(old)), nw); }
int MPI_Type_contiguous(int count, MPI_Datatype old, MPI_Datatype* nw) { long const c = count; return new_node(1, c, 1, extent_of(old), old, c * extent_of(old), nw); }
int MPI_Type_create_resized(MPI_Datatype old, MPI_Aint lb, MPI_Aint extent, MPI_Datatype* nw) { if(lb != 0) g_unmodelled = 1; return new_node(2, 1, 1, 0, old, extent, nw); }
int MPI_Type_dup(MPI_Datatype old, MPI_Datatype* nw) { return new_node(2, 1, 1, 0, old, extent_of(old), nw); }
int MPI_Type_commit(MPI_Datatype* dt) { touch(*dt); if(is_node(*dt)) g_node[node_of(*dt)].committed = 1; return MPI_SUCCESS; }   // committing a predefined type is harmless
int MPI_Type_free(MPI_Datatype* dt) { if(is_node(*dt)) { if(g_node[node_of(*dt)].freed) g_bad = 1; g_node[node_of(*dt)].freed += 1; } else g_bad = 1; *dt = MPI_DATATYPE_NULL; return MPI_SUCCESS; }
}
namespace mpi = multi::mpi;
// byte displacement of the e-th basic element of the message (count repetitions of dt at multiples of its extent): MPI typemap semantics
static L typemap_disp(MPI_Datatype dt, L e) {
  if(!is_node(dt)) return e * basic_size(dt);
  long t = node_of(dt);
  L ne = g_node[t].nelem; L disp = (e / ne) * g_node[t].extent; L r = e % ne;
#pragma unroll
  for(int depth = 0; depth < 2 * D + 3; ++depth) {
    if(t < 0) break;
    L const n_old = g_node[t].old >= 0 ? g_node[g_node[t].old].nelem : 1;
    L const ext_old = g_node[t].old >= 0 ? g_node[g_node[t].old].extent : static_cast<L>(sizeof(ELEM));
    L const per_block = g_node[t].blocklen * n_old;
    disp += (r / per_block) * g_node[t].stride + ((r % per_block) / n_old) * ext_old; r = r % n_old; t = g_node[t].old;
  }
  return disp;
}
VF_HARNESS(message_denotes_elements) {
  Spec<D> s = arbitrary_spec<D>(1, 0, MEMSZ2);
  auto v = view_of<D, ELEM>(s, g_buf);
  L const ne = spec_num_elements(s);
  { mpi::message<> msg(v.elements());
    vf_assert(g_unmodelled == 0, "MODEL every MPI datatype call is inside the typemap model (hvector / vector / contiguous / resized with lb 0 / dup, non-negative strides)");
    vf_assert(msg.buffer() == static_cast<void*>(g_buf + s.origin), "buffer is the first viewed element");
    MPI_Datatype const dt = msg.datatype();
    if(is_node(dt)) vf_assert(g_node[node_of(dt)].committed == 1 && g_node[node_of(dt)].freed == 0, "the datatype handed out is committed (and not freed) while the message lives");
    else vf_assert(basic_size(dt) == static_cast<long>(sizeof(ELEM)), "a predefined datatype handed out is the element's");
    vf_assert(static_cast<L>(msg.count()) * nelem_of(dt) == ne, "count x (elements per datatype) equals num_elements: no more, no fewer");
    L k = vf_nondet_long(); vf_assume(0 <= k && k < ne);
    // k-th element in canonical order (last index fastest)
    L idx[D]; L rem = k;
#pragma unroll
    for(int j = D - 1; j >= 0; --j) { idx[j] = rem % s.d[j].size; rem = rem / s.d[j].size; }
    L want = 0;
#pragma unroll
    for(int j = 0; j < D; ++j) want += idx[j] * s.d[j].stride;
    vf_assert(typemap_disp(dt, k) == want * static_cast<L>(sizeof(ELEM)), "the k-th element of the message is the k-th element of the view in canonical order");
    vf_assert(g_bad == 0, "no handle used after free, none freed twice");
  }
  bool all_freed_once = true;
#pragma unroll
  for(int n = 0; n < NNODE; ++n) if(n < g_nnode) all_freed_once = all_freed_once && g_node[n].freed == 1 && g_node[n].used_after_free == 0;
  vf_assert(all_freed_once && g_bad == 0, "every created datatype is freed exactly once and none is used after being freed");
  vf_reach("message_denotes_elements");
}
