// C06: reextent keeps the common part; clear, reshape and assign do what they say.
// The array under test comes from the pre-state generator of own_state.hpp (non-empty coded array or an empty shape).
// -DDIM=1|2 -DELT=int|Tr
#include "own_state.hpp"

// oracle at a symbolic tuple of the NEW extents m: old value if the tuple lies inside the OLD extents n, else `fill`
// (fill < 0: the element is not specified by the property -- trivially default-constructible type without a fill value)
static void check_reextent(Arr& a, L const* n, L const* m, L base, L fill) {
  vf_assert(has_extents<D>(a, m), "after reextent(x) the array has extents x");
  vf_assert(a.num_elements() == prod<D>(m), "num_elements equals the product of the new extents");
  if(prod<D>(m) > 0) {
    L i[D]; draw_tuple<D>(m, i);
    bool inside = true;
#pragma unroll
    for(int k = 0; k < D; ++k) inside = inside && i[k] < n[k];
    if(inside) { vf_assert(val(at<D>(a, i)) == base + flat<D>(n, i), "element in both the old and the new extents keeps its value"); }
    else if(fill >= 0) { vf_assert(val(at<D>(a, i)) == fill, "new element equals the fill value (or a value-initialised element)"); }
  }
}
static bool same_extents(L const* n, L const* m) {
  bool s = true;
#pragma unroll
  for(int k = 0; k < D; ++k) s = s && n[k] == m[k];
  return s;
}
constexpr bool kTrivial = std::is_trivially_default_constructible_v<T>;

template<int KA> static void t_reextent() {   // reextent(x) & : common part kept, new elements value-initialised when T is not trivially default constructible
  Slot a; make_state<KA>(a, 10, 0); SLOT(2);
  L m[D]; draw_extents<D>(m, 0, NB);
  T* const before = (*a).data_elements();
  (*a).reextent(exts<D>(m));
  check_reextent(*a, a.n, m, 10, kTrivial ? -1 : 0);
  if(same_extents(a.n, m)) vf_assert((*a).data_elements() == before, "reextent to the current extents keeps the storage");
  a.destroy(); check_all_released();
}
VF_HARNESS(reextent_k1) { t_reextent<1>(); vf_reach("reextent_k1"); }
VF_HARNESS(reextent_k0) { t_reextent<0>(); vf_reach("reextent_k0"); }
VF_HARNESS(reextent_k5) { t_reextent<5>(); vf_reach("reextent_k5"); }

template<int KA> static void t_reextent_fill() {   // reextent(x, v) &
  Slot a; make_state<KA>(a, 10, 0); SLOT(2);
  L m[D]; draw_extents<D>(m, 0, NB);
  T* const before = (*a).data_elements();
  (*a).reextent(exts<D>(m), T(77));
  check_reextent(*a, a.n, m, 10, 77);
  if(same_extents(a.n, m)) vf_assert((*a).data_elements() == before, "reextent to the current extents keeps the storage");
  a.destroy(); check_all_released();
}
VF_HARNESS(reextent_fill_k1) { t_reextent_fill<1>(); vf_reach("reextent_fill_k1"); }
VF_HARNESS(reextent_fill_k0) { t_reextent_fill<0>(); vf_reach("reextent_fill_k0"); }
VF_HARNESS(reextent_fill_k3) { t_reextent_fill<3>(); vf_reach("reextent_fill_k3"); }
VF_HARNESS(reextent_fill_k5) { t_reextent_fill<5>(); vf_reach("reextent_fill_k5"); }

VF_HARNESS(reextent_rvalue) {   // std::move(a).reextent(x): documented as NOT preserving elements; extents, storage accounting, value-initialisation
  Slot a; make_state<1>(a, 10, 0); SLOT(2);
  L m[D]; draw_extents<D>(m, 0, NB);
  T* const before = (*a).data_elements();
  std::move(*a).reextent(exts<D>(m));
  vf_assert(has_extents<D>(*a, m), "after reextent(x) the array has extents x");
  if(same_extents(a.n, m)) { vf_assert((*a).data_elements() == before, "reextent to the current extents keeps the storage"); check_value(*a, a.n, 10, "kept"); }
  else if(!kTrivial && prod<D>(m) > 0) { L i[D]; draw_tuple<D>(m, i); vf_assert(val(at<D>(*a, i)) == 0, "elements are value-initialised"); }
  a.destroy(); check_all_released();
  vf_reach("reextent_rvalue");
}

VF_HARNESS(reextent_noop_keeps_iterators) {   // reextent to the current extents keeps iterators and views valid
  Slot a; make_state<1>(a, 10, 0); SLOT(2);
  auto it = (*a).begin(); auto&& v = (*a)(); auto eit = (*a).elements().begin();
  L form = vf_range(0, 1);
  if(form == 0) { (*a).reextent(exts<D>(a.n)); } else { (*a).reextent(exts<D>(a.n), T(77)); }
  vf_assert(it == (*a).begin() && v.base() == (*a).base() && v.layout() == (*a).layout(), "iterator and view taken before still designate the array");
  L i[D]; draw_tuple<D>(a.n, i);
  vf_assert(val(at<D>(v, i)) == 10 + flat<D>(a.n, i), "the view taken before reads the same elements");
  vf_assert(val(*eit) == 10, "the flat iterator taken before reads the first element");
  a.destroy(); check_all_released();
  vf_reach("reextent_noop_keeps_iterators");
}

template<int KA> static void t_clear() {   // clear() and = {} leave an empty valid array (assignable afterwards, destructible)
  Slot a; make_state<KA>(a, 10, 0); SLOT(2);
  L form = vf_range(0, 1);
  if(form == 0) { (*a).clear(); } else { *a = {}; }
  check_valid_empty(*a);
  vf_assert(live_blocks() == 0, "clear returns the storage");
  L m[D]; draw_extents<D>(m, 1, NB);
  (*a).reextent(exts<D>(m), T(3));       // a later mutating operation works on the cleared array
  vf_assert(has_extents<D>(*a, m), "a cleared array can be re-extended");
  a.destroy(); check_all_released();
}
VF_HARNESS(clear_k1) { t_clear<1>(); vf_reach("clear_k1"); }
VF_HARNESS(clear_k0) { t_clear<0>(); vf_reach("clear_k0"); }
VF_HARNESS(clear_k4) { t_clear<4>(); vf_reach("clear_k4"); }

#if DIM >= 2
VF_HARNESS(reshape_keeps_flat_sequence) {   // reshape to extents with the same element count preserves the flat element sequence
  Slot a; make_state<1>(a, 10, 0); SLOT(2);
  L m[D]; draw_extents<D>(m, 1, NB * NB); vf_assume(prod<D>(m) == prod<D>(a.n));
  T* const before = (*a).data_elements();
  (*a).reshape(exts<D>(m));
  vf_assert(has_extents<D>(*a, m), "reshape gives the requested extents");
  vf_assert((*a).data_elements() == before, "reshape keeps the storage");
  L k = vf_nondet_long(); vf_assume(0 <= k && k < prod<D>(m));
  vf_assert(val((*a).elements()[k]) == 10 + k, "reshape preserves the flat element sequence");
  L i[D]; draw_tuple<D>(m, i);
  vf_assert(val(at<D>(*a, i)) == 10 + flat<D>(m, i), "element (i,j) of the reshaped array is flat position i*m1+j");
  a.destroy(); check_all_released();
  vf_reach("reshape_keeps_flat_sequence");
}
#endif

// array::assign(extensions, value) is ill-formed when instantiated at the pinned commit ((*this).array::layout_t::operator= names a private base): not a
// behavioural question, that clause cannot be exercised.

#if DIM == 1
template<int KA> static void t_assign_range() {   // assign(first, last) and = {list}
  Slot a; make_state<KA>(a, 10, 0); SLOT(2);
  int x0 = vf_nondet_int(); int x1 = vf_nondet_int(); int x2 = vf_nondet_int();
  T src[3] = {T(x0), T(x1), T(x2)};
  L cnt = vf_range(0, 3);
  (*a).assign(src, src + cnt);
  vf_assert((*a).size() == cnt, "assign(first,last) gives last-first elements");
  L k = vf_nondet_long(); vf_assume(0 <= k && k < cnt);
  vf_assert(val((*a)[k]) == (k == 0 ? x0 : (k == 1 ? x1 : x2)), "assign(first,last) gives exactly the requested contents");
  a.destroy();
}
VF_HARNESS(assign_range_k1) { t_assign_range<1>(); vf_reach("assign_range_k1"); }
VF_HARNESS(assign_range_k0) { t_assign_range<0>(); vf_reach("assign_range_k0"); }
VF_HARNESS(assign_range_rebased) {   // assign(first,last) / = {list} on an array with a non-zero index base: the result is the value array(first,last) (zero-based), whatever was there
  L b = vf_range(-2, 2); L n = vf_range(0, 3);
  int x0 = vf_nondet_int(); int x1 = vf_nondet_int(); int x2 = vf_nondet_int();
  T src[3] = {T(x0), T(x1), T(x2)};
  L cnt = vf_range(0, 3); L form = vf_range(0, 1);
  { SLOT(0); Arr a(multi::extensions_t<1>{multi::index_extension(b, b + n)}, T(5)); SLOT(2);
    if(form == 0) { a.assign(src, src + cnt); } else { vf_assume(cnt == 3); a = {T(x0), T(x1), T(x2)}; }
    vf_assert(a.size() == cnt && (cnt == 0 || a.extension().first() == 0), "assign(first,last) / = {list} gives the zero-based extension [0, last-first)");
    L k = vf_nondet_long(); vf_assume(0 <= k && k < cnt);
    vf_assert(val(a[k]) == (k == 0 ? x0 : (k == 1 ? x1 : x2)), "assign(first,last) gives exactly the requested contents at index k"); }
  check_all_released();
  vf_reach("assign_range_rebased");
}
#endif
