"""claims.py -- per property: what the check claims (level text), what it assumes (note); or why it is not applicable"""
CLAIMS = {
 'C01': dict(
   text='Inductive step: from an ARBITRARY valid view (symbolic sizes<=3, strides<=6, index bases in [-2,2], symbolic origin; D=1..3 quick, D=4 thorough) one view-forming operation '
        '(index, sliced, sliced+stride, strided, dropped, taked, rotated, unrotated, transposed, reversed, diagonal, partitioned, chunked, flatted, broadcasted, identity/call-syntax) with symbolic in-domain arguments '
        'yields a view whose sizes/strides/size/num_elements/is_empty/extension(s) equal the specification and whose element at a symbolic valid tuple is the prescribed one through brackets, call syntax, tuple apply and cursor; '
        'plus base case and K-step composition machine from contiguous arrays. SAT verdict over all inputs in the bounds; induction covers operation sequences of any length.',
   note='Bounds: extents<=3 (4 thorough), strides<=6, D<=3 (4 thorough); beyond them nothing is claimed. Domain assumptions on the spec side: indices inside the extension, stride | size (and | index base), partition count | size, flatted only on mutually contiguous zero-based leading dims, diagonal on zero-based dims. '
        'Trusted: clang-14 -O1 lowering, ll2c (validated differentially each run), CBMC+cadical. 32-bit narrow mode under the checked NARROW invariant; thorough re-runs at 64 bit.'),
 'C02': dict(
   text='On an ARBITRARY valid view (symbolic sizes<=3, strides<=6, index bases in [-2,2] for begin/end; D=1..3): end-begin==size, order/equality follow positions, ++/--/+=/-=/+/- are mutually inverse, it[n]==*(it+n), '
        'copies/assignments/const conversions denote the same position, and *(begin+p) is the same sub-view (base and layout) as v[first+p]. For elements(): size, and the ADDRESS obtained by dereferencing after every kind of movement '
        '(++, --, +=, -=, +, -, assignment, copy, const conversion, [], front, back) equals the k-th tuple in canonical order computed by an independent spec. SAT verdict over all positions/offsets in the bounds.',
   note='Bounds: extents<=3, strides<=6, D<=3; elements() laws on zero-based views (index bases are C19). Same trusted base as C01.'),
 'C19': dict(
   text='Creation of index bases (array_ref over explicit extensions, reindexed(f), reindexed(f0..fD-1), blocked, stenciled) on ARBITRARY views yields exactly the specified extension shift and the same elements; '
        'relational twin: a view re-based by symbolic f in [-2,2]^D and its zero-based twin designate the same elements under shifted indexing, slicing, iteration and elements(); the full C02 elements() laws are re-proved on re-based views. '
        'The C01 step family and the C02 begin/end laws themselves run with symbolic index bases in [-2,2].',
   note='Bounds: extents<=3, strides<=6, |base|<=2, D<=3 (elements laws D<=2). Assignment/reextent/equality of re-based OWNING arrays are exercised in C05/C06/C07 harnesses with the FB parameter. Same trusted base as C01.'),
 'C20': dict(
   text='(1) In the default build every library assertion reachable from the valid-use harnesses (C01 step family, C02 laws; also proved inside every other property\'s check) is proved unreachable-to-fail for all inputs in the bounds. '
        '(2) Must-fire: for an ARBITRARY view and an index outside its extension (leading, inner, const and mutable overloads, call syntax, elements_at) and for assignment between views of different extents (copy, move, converting, temporary-on-the-left forms), '
        'the statement after the call is proved unreachable, a library assertion is shown to fire (solver witness replayed natively), and no pointer check fails on the path prefix. '
        '(3) The same valid-use harnesses compiled with -DNDEBUG and with -DBOOST_MULTI_ASSERT_DISABLE satisfy the same functional specification, hence give identical observable results in all three configurations.',
   note='Bounds as C01/C02 at D=2 for (1),(3); D=1..3, extents<=3, strides<=4 for (2). (3) is established through the common specification rather than a product program. Same trusted base as C01.'),
 'C05': dict(
   text='Destination = ARBITRARY injective view, source = ARBITRARY view of equal extents over separate storage (own symbolic strides/origin; int and long elements). After every assignment form (view=view, =const view, temporary on the left, =std::move(view), elements()=elements(), '
        'converting long->int, row-wise iterator copy, fill, swap, 1-D range/iterator/initializer-list, array_ref flat copy) a whole-storage image oracle at a symbolic cell proves: a viewed cell holds exactly the corresponding source element (contents are address-coded, so the value identifies the source cell), '
        'every other cell is untouched, the source is unchanged, and the destination still has its base and layout (never rebound/resized).',
   note='Bounds quick: D=1 extents<=3 strides<=4; D=2 extents<=2 strides<=3; thorough: D=2 extents<=3, D=3 extents<=2. Source and destination in separate storages (a sufficient form of "disjoint elements"). element_moved and D=0 are covered in the owning-array harnesses (C04/C08). Same trusted base as C01.'),
 'C04': dict(
   text='One operation from an arbitrary reachable pre-state (default-constructed, sized with/without fill, cleared, moved-from, empty shape: one query per pre-state kind) with symbolic extents and position-coded contents: '
        'copy construction, copy assignment over every prior state, self-assignment, move construction/assignment (storage taken over, no element copied or moved, no allocation, source empty yet assignable and destructible), swap, '
        'assignment/construction from a view of ARBITRARY layout (symbolic strides/origin), from an array of convertible element type, from (nested) initializer lists, decay/unary plus. Checked against a plain model at a symbolic index tuple; '
        'independence checked by writing through either object. Because every operation is proved from every generator pre-state and yields a model value again, histories are covered by induction. Element types int and the tracked non-trivial Tr.',
   note='Bounds quick: D=1 (int, extents<=3; Tr, extents<=2); thorough adds D=2 (extents<=2). D=0,3,4 outside. Harness allocator A<T> (fixed slots of a static arena, never reused); operator new elsewhere from a static arena. Empty shapes of owning arrays compared by emptiness (library collapses them). Same trusted base as C01.'),
 'C07': dict(
   text='Two operands, each an ARBITRARY zero-based view (own symbolic extents, strides, origin) over storages with symbolic contents in {0,1,2}; separate storages, the SAME storage (aliased operands of different layout), array_ref vs array_ref, array_ref vs strided view, int vs long elements, const and mutable operands. '
        'Oracle = plain loops: == iff same extents and equal elements; != its negation; <, <=, > (and >= in 1-D) equal the recursive lexicographic order with proper-prefix rule; symmetry, reflexivity, at-most-one / exactly-one of a<b, a==b, b<a. Thorough: D=3 and transitivity/congruence on triples.',
   note='Bounds quick: D=1 extents<=3, D=2 extents<=2, strides<=4; thorough D=3 extents<=2. For empty operands only ==/!= consistency (as the property states). Owning arrays as operands are exercised through array_ref/views of their storage. Same trusted base as C01.'),
 'C16': dict(not_applicable='every clause is about which C++ expressions are well-formed / what type overload resolution yields (is_assignable, is_invocable, copy-constructibility): const-ness is erased before LLVM IR exists, there is no run-time behaviour to execute symbolically; the deciding procedure is the C++ type checker, not an SMT/SAT solver (DESIGN.md C16)'),
}
