"""registry.py -- which wrapper TUs / entries / bounds decide which property (read by engine/run.py)"""
from run import Unit
UNITS = []
def U(*a, **k): UNITS.append(Unit(*a, **k))

# ---- C01 view algebra
for d in (1, 2, 3):
    U('C01', 'C01_step.cpp', defines=dict(DIM=d, NB=3, SB=6), unwind=6, timeout=900)
U('C01', 'C01_step.cpp', defines=dict(DIM=4, NB=3, SB=4, FB=1), unwind=6, timeout=3000, tier='thorough')

# ---- C02 iterators, flat element ranges
for d in (1, 2, 3):
    U('C02', 'C02_iter.cpp', defines=dict(DIM=d, NB=3, SB=6), unwind=6, timeout=900)

# ---- C19 index bases (the C01 step family and C02 iterator laws also run with index bases; here: creation of bases + flat ranges on re-based views)
for d in (1, 2, 3):
    U('C19', 'C19_rebase.cpp', defines=dict(DIM=d, NB=3, SB=6), unwind=6, timeout=900)
for d in (1, 2):
    U('C19', 'C02_iter.cpp', name='C19_elements_rebased_DIM%d' % d, defines=dict(DIM=d, NB=3, SB=6, EFB=2), entries=['elements_shape', 'elements_index', 'elements_movement'], unwind=6, timeout=900)

# ---- C20 debug contracts
# (2) misuse must die in a library assertion before any out-of-bounds access
for d in (1, 2, 3):
    U('C20', 'C20_mustfire.cpp', defines=dict(DIM=d, NB=3, SB=4), unwind=6, timeout=900, mustfire=True)
# (1) silent on valid use: the valid-use harnesses of C01/C02 (DIM=2), every LIBASSERT property proved unreachable-to-fail in the default build
# (3) assertions change nothing: the same harnesses compiled with -DNDEBUG and -DBOOST_MULTI_ASSERT_DISABLE satisfy the same functional specification
for cfg, dd in (('default', {}), ('ndebug', {'NDEBUG': 1}), ('assert_disable', {'BOOST_MULTI_ASSERT_DISABLE': 1})):
    U('C20', 'C01_step.cpp', name='C20_%s_C01_step_DIM2' % cfg, defines=dict(DIM=2, NB=3, SB=4, **dd), unwind=6, timeout=900)
    U('C20', 'C02_iter.cpp', name='C20_%s_C02_iter_DIM2' % cfg, defines=dict(DIM=2, NB=3, SB=4, **dd), unwind=6, timeout=900)

# ---- C05 assignment through views (storage-image oracle)
U('C05', 'C05_assign.cpp', defines=dict(DIM=1, NB=3, SB=4, MEMSZ2=24), unwind=6, timeout=900)
U('C05', 'C05_assign.cpp', defines=dict(DIM=2, NB=2, SB=3, MEMSZ2=16), unwind=6, timeout=900)
U('C05', 'C05_assign.cpp', defines=dict(DIM=2, NB=3, SB=4, MEMSZ2=32), unwind=11, timeout=3600, tier='thorough', backend='kissat')
U('C05', 'C05_assign.cpp', defines=dict(DIM=3, NB=2, SB=3, MEMSZ2=32), unwind=10, timeout=3600, tier='thorough', backend='kissat')
