"""registry.py -- which wrapper TUs / entries / bounds decide which property (read by engine/run.py)"""
from run import Unit
UNITS = []
def U(*a, **k): UNITS.append(Unit(*a, **k))

# ---- C01 view algebra
for d in (1, 2, 3):
    U('C01', 'C01_step.cpp', defines=dict(DIM=d, NB=3, SB=6), unwind=6, timeout=900)
# the same step family called on a const lvalue (VCAT=1) and on an rvalue (VCAT=2): every operation has separate &, const& and && overloads
for d in (1, 2, 3):
    for vc in (1, 2):
        U('C01', 'C01_step.cpp', defines=dict(DIM=d, NB=3 if d < 3 else 2, SB=6 if d < 3 else 4, VCAT=vc), unwind=6, timeout=900)
U('C01', 'C01_step.cpp', defines=dict(DIM=4, NB=3, SB=4, FB=1), unwind=6, timeout=3000, tier='thorough')
U('C01', 'C01_paren.cpp', defines=dict(DIM=2, NB=3, SB=4, KSTEPS=2), unwind=6, timeout=1200)
U('C01', 'C01_paren.cpp', defines=dict(DIM=3, NB=2, SB=3, KSTEPS=2), unwind=6, timeout=1800)
U('C01', 'C01_paren.cpp', name='C01_machine_K3', defines=dict(DIM=2, NB=3, SB=4, KSTEPS=3), entries=['machine'], unwind=6, timeout=3600, tier='thorough')

# ---- C02 iterators, flat element ranges
for d in (1, 2, 3):
    U('C02', 'C02_iter.cpp', defines=dict(DIM=d, NB=3, SB=6), unwind=6, timeout=900)

# ---- C19 index bases (the C01 step family and C02 iterator laws also run with index bases; here: creation of bases + flat ranges on re-based views)
for d in (1, 2, 3):
    U('C19', 'C19_rebase.cpp', defines=dict(DIM=d, NB=3, SB=6), unwind=6, timeout=900)
# owning arrays over explicit index extensions (bases in [-2,2]): construct / copy / assign / == / reextent
U('C19', 'C19_owning.cpp', defines=dict(DIM=1, NB=3, ELT='int', SLOT_CELLS=3), unwind=6, timeout=1200, heap=128)
U('C19', 'C19_owning.cpp', defines=dict(DIM=2, NB=2, ELT='int', SLOT_CELLS=4), unwind=7, timeout=1800, heap=128, slots=2)
for d in (1, 2):
    U('C19', 'C02_iter.cpp', name='C19_elements_rebased_DIM%d' % d, defines=dict(DIM=d, NB=3, SB=6, EFB=2), entries=['elements_shape', 'elements_index', 'elements_movement'], unwind=6, timeout=900)

# ---- C20 debug contracts
# (2) misuse must die in a library assertion before any out-of-bounds access
for d in (1, 2, 3):
    U('C20', 'C20_mustfire.cpp', defines=dict(DIM=d, NB=3, SB=4), unwind=6, timeout=900, mustfire=True)
# (1) silent on valid use: the valid-use harnesses of C01/C02 (DIM=2), every LIBASSERT property proved unreachable-to-fail in the default build
# (3) assertions change nothing: the same harnesses compiled with -DNDEBUG and -DBOOST_MULTI_ASSERT_DISABLE satisfy the same functional specification
for cfg, dd in (('default', {}), ('ndebug', {'NDEBUG': 1}), ('assert_disable', {'BOOST_MULTI_ASSERT_DISABLE': 1})):
    U('C20', 'C01_step.cpp', name='C20_%s_C01_step_DIM2' % cfg, defines=dict(DIM=2, NB=3, SB=4, **dd), unwind=6, timeout=900)
    U('C20', 'C02_iter.cpp', name='C20_%s_C02_iter_DIM2' % cfg, defines=dict(DIM=2, NB=3, SB=4, **dd), unwind=6, timeout=900)

# ---- C05 assignment through views (storage-image oracle)
U('C05', 'C05_assign.cpp', defines=dict(DIM=1, NB=3, SB=4, MEMSZ2=24), unwind=6, timeout=900)
U('C05', 'C05_assign.cpp', defines=dict(DIM=2, NB=2, SB=3, MEMSZ2=16), unwind=6, timeout=900)
U('C05', 'C05_assign.cpp', name='C05_assign_DIM3_quick', defines=dict(DIM=3, NB=2, SB=4, MEMSZ2=24), entries=['assign_view', 'assign_elements', 'swap_assign_compact_permuted'], unwind=10, timeout=1200, slots=2)
U('C05', 'C05_assign.cpp', defines=dict(DIM=2, NB=3, SB=4, MEMSZ2=32), unwind=11, timeout=3600, tier='thorough', backend='kissat', per_entry={'swap_views': dict(timeout=9000)})   # swap_views: 32 min on an idle machine, over an hour under load
U('C05', 'C05_assign.cpp', defines=dict(DIM=3, NB=2, SB=3, MEMSZ2=32), unwind=10, timeout=3600, tier='thorough', backend='kissat')

# ---- C07 equality and ordering
U('C07', 'C07_compare.cpp', defines=dict(DIM=1, NB=3, SB=4, MEMSZ2=12), unwind=6, timeout=900)
U('C07', 'C07_compare.cpp', defines=dict(DIM=2, NB=2, SB=3, MEMSZ2=12), unwind=7, timeout=900)
U('C07', 'C07_compare.cpp', defines=dict(DIM=3, NB=2, SB=3, MEMSZ2=24), unwind=11, timeout=3600, tier='thorough', backend='kissat', skip_entries=['eq_order_aliased', 'order_views'])   # the two ordering entries get no verdict at D=3 within 3600 s (kissat and cadical): outside the claim
U('C07', 'C07_compare.cpp', name='C07_triples_DIM2', defines=dict(DIM=2, NB=2, SB=3, MEMSZ2=12, TRIPLES=1), entries=['order_transitive'], unwind=7, timeout=3600, tier='thorough', backend='kissat')

# ---- C04 value semantics of owning arrays (one operation from an arbitrary reachable pre-state; SLOT_CELLS = max elements per array)
U('C04', 'C04_value.cpp', defines=dict(DIM=1, NB=3, ELT='int', SLOT_CELLS=3), unwind=6, timeout=1200, heap=128)
U('C04', 'C04_value.cpp', defines=dict(DIM=2, NB=2, ELT='int', SLOT_CELLS=6), unwind=7, timeout=1800, heap=128, slots=2, tier='thorough')
U('C04', 'C04_value.cpp', defines=dict(DIM=1, NB=2, ELT='Tr', SLOT_CELLS=3), unwind=5, timeout=1800, heap=128, slots=2)
# D=0: copy/move construction of a 0-D array is ill-formed with assertions enabled (assert(this->stride() != 0) names a deleted function), hence -DNDEBUG
U('C04', 'C04_value.cpp', name='C04_value_DIM2_quick', defines=dict(DIM=2, NB=2, ELT='int', SLOT_CELLS=6), entries=['copy_construct_k1', 'move_assign_k1', 'assign_from_convertible_k1'], unwind=7, timeout=1800, heap=128, slots=2)   # D=2 (size() != num_elements()) for the core value operations; the full D=2 set is in the thorough tier
U('C04', 'C04_value.cpp', name='C04_from_view_DIM3', defines=dict(DIM=3, NB=2, VB=4, ELT='int', SLOT_CELLS=8), entries=['construct_from_view_and_decay', 'assign_from_view_k0'], unwind=11, timeout=1800, heap=128, slots=2)   # D=3: views whose dimension order is permuted (compact or not)
U('C04', 'C04_value.cpp', name='C04_from_view_DIM3_k1', defines=dict(DIM=3, NB=2, VB=4, ELT='int', SLOT_CELLS=8), entries=['assign_from_view_k1'], unwind=11, timeout=3600, heap=128, slots=3, tier='thorough')
U('C04', 'C19_owning.cpp', name='C04_based_DIM1', defines=dict(DIM=1, NB=3, ELT='int', SLOT_CELLS=3), entries=['based_construct_copy_equal', 'based_assign_k1'], unwind=6, timeout=1200, heap=128)   # value semantics of arrays with non-zero index bases (the C19 harness, claimed here as well)
U('C04', 'C04_zero.cpp', defines=dict(SLOT_CELLS=1, NDEBUG=1), unwind=5, timeout=600, heap=128)
U('C04', 'C04_value.cpp', defines=dict(DIM=2, NB=2, ELT='Tr', SLOT_CELLS=6), unwind=7, timeout=3600, heap=128, tier='thorough', slots=2)

# ---- C06 reextent, clear, reshape, assign
U('C06', 'C06_reextent.cpp', defines=dict(DIM=1, NB=3, ELT='int', SLOT_CELLS=3), unwind=6, timeout=1200, heap=128)
U('C06', 'C06_reextent.cpp', defines=dict(DIM=2, NB=2, ELT='int', SLOT_CELLS=4), unwind=7, timeout=1800, heap=128, slots=2)
U('C06', 'C06_reextent.cpp', defines=dict(DIM=1, NB=2, ELT='Tr', SLOT_CELLS=3), unwind=6, timeout=1800, heap=128, slots=2)
U('C06', 'C06_reextent.cpp', defines=dict(DIM=2, NB=2, ELT='Tr', SLOT_CELLS=4), unwind=7, timeout=3600, heap=128, tier='thorough', slots=2)
U('C06', 'C06_reextent.cpp', name='C06_reextent_DIM2_Tr_rvalue', defines=dict(DIM=2, NB=2, ELT='Tr', SLOT_CELLS=4), entries=['reextent_rvalue'], unwind=7, timeout=1800, heap=128, slots=2)   # same element count, other shape: needs D>=2 and a non-trivially constructible element
U('C06', 'C06_reextent.cpp', defines=dict(DIM=3, NB=2, ELT='int', SLOT_CELLS=8), entries=['reextent_k1', 'reextent_fill_k1', 'reshape_keeps_flat_sequence'], unwind=11, timeout=1800, heap=128, slots=2)

# ---- C08 element lifetime and storage accounting (ghost bitmap + ledger; C04/C06 harnesses re-used with the tracked element type)
U('C08', 'C08_ctor.cpp', defines=dict(DIM=1, NB=2, ELT='Tr', SLOT_CELLS=3), unwind=6, timeout=1800, heap=128, slots=2)
U('C08', 'C08_ctor.cpp', defines=dict(DIM=2, NB=2, ELT='Tr', SLOT_CELLS=4), unwind=7, timeout=1800, heap=128, slots=2, tier='thorough')
U('C08', 'C08_ctor.cpp', name='C08_nowrite_DIM1', defines=dict(DIM=1, NB=3, ELT='int', SLOT_CELLS=3, NOWRITE=1), entries=['sizing_ctor_does_not_write', 'reextent_does_not_write_new_elements'], unwind=6, timeout=1800, heap=128)
U('C08', 'C08_ctor.cpp', name='C08_nowrite_DIM2', defines=dict(DIM=2, NB=2, ELT='int', SLOT_CELLS=4, NOWRITE=1), entries=['sizing_ctor_does_not_write', 'reextent_does_not_write_new_elements'], unwind=7, timeout=1800, heap=128)
U('C08', 'C04_value.cpp', name='C08_C04_value_DIM1_Tr', defines=dict(DIM=1, NB=2, ELT='Tr', SLOT_CELLS=3), unwind=5, timeout=1800, heap=128, slots=2, tier='thorough')
U('C08', 'C06_reextent.cpp', name='C08_C06_reextent_DIM1_Tr', defines=dict(DIM=1, NB=2, ELT='Tr', SLOT_CELLS=3), unwind=6, timeout=1800, heap=128, slots=2)
U('C08', 'C06_reextent.cpp', name='C08_C06_reextent_DIM2_Tr', defines=dict(DIM=2, NB=2, ELT='Tr', SLOT_CELLS=4), unwind=7, timeout=3600, heap=128, slots=2, tier='thorough')

# ---- C09 failure injection: symbolic fault ordinal, real C++ exceptions lowered by ll2c
KF09 = {e + '_kf': 'C09-ctor-leak' for e in ('ctor_extents_value', 'ctor_extents', 'ctor_copy', 'ctor_from_view', 'assign_from_view')}
U('C09', 'C09_fault.cpp', defines=dict(DIM=1, NB=2, ELT='Tr', SLOT_CELLS=3, KMAX=10), unwind=6, timeout=1800, heap=128, slots=2, kf=KF09)
U('C09', 'C09_fault.cpp', defines=dict(DIM=2, NB=2, ELT='Tr', SLOT_CELLS=4, KMAX=16), unwind=7, timeout=3600, heap=128, slots=3, tier='thorough', kf=KF09)
# D=2 in the quick tier for the operations with hand-written recovery code (size() != num_elements() only shows for D>=2)
U('C09', 'C09_fault.cpp', name='C09_fault_DIM2_quick', defines=dict(DIM=2, NB=2, ELT='Tr', SLOT_CELLS=4, KMAX=16), entries=['reextent', 'reextent_fill', 'copy_assign_k1'], unwind=7, timeout=1800, heap=128, slots=2)

# ---- C10 allocator identity and propagation: 8 trait combinations (compile-time) x symbolic instance ids
for cca in (0, 1):
    for cma in (0, 1):
        for cs in (0, 1):
            quick = (cca, cma, cs) in ((0, 0, 0), (1, 1, 1), (0, 1, 0), (1, 0, 0))
            U('C10', 'C10_alloc.cpp', defines=dict(DIM=1, NB=2, CFG_POCCA=cca, CFG_POCMA=cma, CFG_POCS=cs, SLOT_CELLS=2), unwind=5, timeout=1800, heap=128, tier='quick' if quick else 'thorough')
U('C10', 'C10_alloc.cpp', defines=dict(DIM=2, NB=2, CFG_POCCA=0, CFG_POCMA=0, CFG_POCS=0, SLOT_CELLS=4), unwind=7, timeout=3600, heap=128, tier='thorough')
U('C10', 'C10_alloc.cpp', name='C10_alloc_DIM2_quick', defines=dict(DIM=2, NB=2, CFG_POCCA=0, CFG_POCMA=0, CFG_POCS=0, SLOT_CELLS=4), entries=['move_construct', 'move_assign'], unwind=7, timeout=1800, heap=128, slots=2)   # element-wise fallbacks for unequal allocators at D=2 (size() != num_elements())

# ---- C12 projection views
U('C12', 'C12_project.cpp', defines=dict(DIM=1, NB=3, SB=4, MEMSZ2=16), unwind=6, timeout=900, heap=256)
U('C12', 'C12_project.cpp', defines=dict(DIM=2, NB=3, SB=3, MEMSZ2=32), unwind=11, timeout=1200, heap=256)
U('C12', 'C12_project.cpp', defines=dict(DIM=3, NB=2, SB=3, MEMSZ2=32), unwind=10, timeout=3600, heap=256, tier='thorough')

# ---- C13 BLAS adaptor, call-contract level (recorded Fortran calls + address-map oracle); a rejection (exception / assertion) is an allowed outcome
BLAS_STUBS = [r'_ZNSt7__cxx1112basic_string', r'_ZNSt11logic_error', r'_ZNSt13runtime_error', r'_ZSt.*to_string', r'_ZNSt9exception', r'vsnprintf', r'_ZNKSt', r'_ZStplI', r'_ZSt9terminatev__', r'__cxa_guard', r'_ZNSt8ios_base', r'__cxa_atexit', r'_ZNSo', r'_ZSt4cerr', r'_ZSt16__ostream_insert', r'_ZNSt6locale', r'_ZSt4endl', r'_ZNSt9basic_ios', r'_ZNKSt5ctype', r'_ZSt16__throw_bad_castv']
# herk rejects the layouts it cannot express by `assert(0)` (the property allows rejection by assertion in assertion-enabled builds)
HERK_REJECT = [r'^LIBASSERT boost/multi/adaptors/blas/\w+\.hpp:\d+: (0|false)( && ".*")?$']   # any `assert(0)` / `assert(false && "reason")` in the BLAS adaptor is a rejection
KF13 = {}   # the former known finding C13-gemm-unit-extent is fixed in /repo (0d18b03); gemm_unit_l* are ordinary entries now
# quick: the complex instantiations WITHOUT conjugation (zgemm_s00_*, ztrsm_s00_*) run the same dispatch as the double ones and are left to the thorough tier
C13_QUICK_SKIP = ['zgemm_s00_l%d' % l for l in range(8)] + ['ztrsm_s00_l%d' % l for l in range(4)] + ['gemm_forms_l2', 'gemm_forms_l5']
U('C13', 'C13_blas.cpp', defines=dict(NB=2, PAD=2), unwind=6, timeout=1800, heap=1024, stubs=BLAS_STUBS, objbits=12, inline=400, slots=2, kf=KF13, reject=HERK_REJECT, skip_entries=C13_QUICK_SKIP)
U('C13', 'C13_blas.cpp', name='C13_blas_NB2_PAD2_all', defines=dict(NB=2, PAD=2), entries=C13_QUICK_SKIP, unwind=6, timeout=1800, heap=1024, stubs=BLAS_STUBS, objbits=12, inline=400, slots=2, reject=HERK_REJECT, tier='thorough')
U('C13', 'C13_blas.cpp', defines=dict(NB=3, PAD=2), unwind=6, timeout=3600, heap=1024, stubs=BLAS_STUBS, objbits=12, inline=400, slots=3, kf=KF13, tier='thorough', reject=HERK_REJECT)

# ---- C15 FFTW adaptor, call-contract level (recorded guru plan)
FFTW_STUBS = [r'fftw_cleanup', r'fftw_cost', r'fftw_flops', r'fftw_init_threads', r'fftw_plan_with_nthreads', r'fftw_make_planner_thread_safe', r'fftw_cleanup_threads', r'_ZNSt8ios_base', r'__cxa_atexit', r'__cxa_guard', r'omp_get', r'_ZNSt6thread', r'sysconf', r'_ZNSt7__cxx11', r'_ZNSt11logic_error', r'_ZNSt13runtime_error', r'_ZSt.*to_string']
for d in (1, 2, 3):
    U('C15', 'C15_fftw.cpp', defines=dict(DIM=d, NB=3, SB=4 if d < 3 else 3, MEMSZ2=48 if d == 3 else 32), unwind=6, timeout=1200, heap=1024, stubs=FFTW_STUBS)
U('C15', 'C15_fftw.cpp', defines=dict(DIM=4, NB=2, SB=3, MEMSZ2=48), unwind=7, timeout=3600, heap=1024, stubs=FFTW_STUBS, tier='thorough')

# ---- C18 MPI messages, call-contract level (typemap model over recorded MPI_Type_* calls)
MPI_LIBS = ['-L/usr/lib/x86_64-linux-gnu/openmpi/lib', '-lmpi']   # only for the predefined handle objects (ompi_mpi_int, ...); MPI_Type_* are the harness's own
MPI_STUBS = [r'_ZNSt8ios_base', r'__cxa_atexit', r'_ZNSt7__cxx11', r'_ZNSt11logic_error']
for d in (1, 2, 3):
    U('C18', 'C18_mpi.cpp', defines=dict(DIM=d, NB=3, SB=4 if d < 3 else 3, MEMSZ2=40), unwind=6, timeout=1200, heap=256, stubs=MPI_STUBS, native_libs=MPI_LIBS, cflags=['-I/usr/lib/x86_64-linux-gnu/openmpi/include'])
U('C18', 'C18_mpi.cpp', name='C18_mpi_double_DIM2', defines=dict(DIM=2, NB=3, SB=4, MEMSZ2=40, ELEM='double'), unwind=6, timeout=1200, heap=256, stubs=MPI_STUBS, native_libs=MPI_LIBS, cflags=['-I/usr/lib/x86_64-linux-gnu/openmpi/include'])
U('C18', 'C18_mpi.cpp', defines=dict(DIM=4, NB=2, SB=3, MEMSZ2=48), unwind=14, timeout=3600, heap=256, stubs=MPI_STUBS, native_libs=MPI_LIBS, cflags=['-I/usr/lib/x86_64-linux-gnu/openmpi/include'], tier='thorough')

# ---- C14 LAPACK adaptor, call-contract level
LAPACK_STUBS = [r'_ZNSt7__cxx11', r'_ZNSt13runtime_error', r'_ZNSt11logic_error', r'_ZSt.*to_string', r'vsnprintf', r'_ZNSt8ios_base', r'__cxa_atexit', r'_ZStplI', r'_ZNKSt', r'_ZN9__gnu_cxx', r'_ZNSt9exception']
for w in (1, 2, 3):
    U('C14', 'C14_lapack.cpp', defines=dict(NB=3, PAD=2, SLOT_CELLS=4, MAXBLK=2, WHICH=w), unwind=6, timeout=1200, heap=1024, stubs=LAPACK_STUBS)

# ---- C17 serialization, library half with a symbolic stub archive
U('C17', 'C17_serial.cpp', defines=dict(DIM=1, NB=3, ELT='int', SLOT_CELLS=3), unwind=6, timeout=1800, heap=128)
U('C17', 'C17_serial.cpp', defines=dict(DIM=2, NB=2, ELT='int', SLOT_CELLS=4), unwind=7, timeout=1800, heap=128, slots=2)
U('C17', 'C17_serial.cpp', defines=dict(DIM=1, NB=2, ELT='Tr', SLOT_CELLS=3), unwind=6, timeout=1800, heap=128, slots=2, tier='thorough')

# explicit conversions between pointer types (raw -> explicitly-constructible fancy pointer): iterator and array_ref converting constructors
for d in (2, 3):   # the 1-D iterator's explicit converting constructor does not instantiate at the pinned commit (it names a member data_ that does not exist): not an accepted program
    U('C11', 'C11_convert.cpp', defines=dict(DIM=d, NB=3, SB=4 if d < 3 else 3), unwind=6, timeout=1200)
# ---- C11 independence of the pointer type: the harness programs of C01/C02/C05/C07 instantiated over a minimal fancy pointer (VF_FANCY=1: no
# conversion to/from T*) and a bounds-tracking pointer (VF_FANCY=2: asserts lo <= p < hi on every dereference).  Compilation of the
# instantiation is the type checker's verdict that no raw-address assumption is needed; the solver proves the same functional specification
# as for raw pointers (hence element-for-element the same observable results) and that no bounds assertion can fail.
for f in (1, 2):
    U('C11', 'C01_step.cpp', name='C11_f%d_C01_step_DIM2' % f, defines=dict(DIM=2, NB=3, SB=4, VF_FANCY=f), unwind=6, timeout=1200)
    U('C11', 'C02_iter.cpp', name='C11_f%d_C02_iter_DIM2' % f, defines=dict(DIM=2, NB=3, SB=4, VF_FANCY=f), unwind=6, timeout=1200)
    U('C11', 'C05_assign.cpp', name='C11_f%d_C05_assign_DIM1' % f, defines=dict(DIM=1, NB=3, SB=4, MEMSZ2=24, VF_ROOT_CELLS=24, VF_FANCY=f), unwind=6, timeout=1200)
    U('C11', 'C07_compare.cpp', name='C11_f%d_C07_compare_DIM1' % f, defines=dict(DIM=1, NB=3, SB=4, MEMSZ2=12, VF_ROOT_CELLS=12, VF_FANCY=f), unwind=6, timeout=1200, skip_entries=['eq_array_ref'])
    U('C11', 'C05_assign.cpp', name='C11_f%d_C05_assign_DIM2' % f, defines=dict(DIM=2, NB=2, SB=3, MEMSZ2=16, VF_ROOT_CELLS=16, VF_FANCY=f), entries=['array_ref_flat', 'assign_view'], unwind=6, timeout=1800)

# ---- C03 standard algorithms on view ranges (differential against plain arrays); libstdc++ large-range branches stubbed (dead for <= 16 elements)
ALGO_STUBS = [r'__introsort_loop', r'__merge_adaptive', r'__merge_without_buffer', r'__stable_sort_adaptive', r'_Temporary_buffer', r'get_temporary_buffer', r'return_temporary_buffer']
LIGHT = ['copy_move_backward', 'equal_lexicographical', 'fill_transform', 'find_count_queries', 'remove', 'reverse', 'swap_ranges', 'unique', 'partition', 'shift_right', 'tail_subrange']
PE03 = {'equal_lexicographical': dict(unwind=24)}   # std::equal on the plain reference array is a byte-wise memcmp
U('C03', 'C03_algo.cpp', name='C03_1d_light', defines=dict(RANGE=1, NB=4, SB=3, MEMSZ2=12, VF_ROOT_CELLS=12), entries=LIGHT, unwind=7, timeout=900, heap=512, stubs=ALGO_STUBS, per_entry=PE03)
U('C03', 'C03_algo.cpp', name='C03_1d_sort', defines=dict(RANGE=1, NB=3, SB=2, MEMSZ2=8, VF_ROOT_CELLS=8), entries=['sort'], unwind=6, timeout=900, heap=512, stubs=ALGO_STUBS)
U('C03', 'C03_algo.cpp', name='C03_elements_light', defines=dict(RANGE=2, NB=2, SB=3, MEMSZ2=12, VF_ROOT_CELLS=12), entries=LIGHT, unwind=7, timeout=900, heap=512, stubs=ALGO_STUBS, per_entry=PE03)
# proxy-row ranges (begin()/end() of an arbitrary 2-D view): six algorithm families in the quick tier, the two expensive ones (10 min, 6-9 GB) in the thorough tier
ROWS_LIGHT = ['rows_reverse', 'rows_swap_ranges', 'rows_copy_move_backward', 'rows_shift_right', 'rows_fill', 'rows_partition']
U('C03', 'C03_rows.cpp', name='C03_rows_light', defines=dict(NB=2, SB=3, MEMSZ2=12, VF_ROOT_CELLS=12), entries=ROWS_LIGHT, unwind=7, timeout=1200, heap=512, stubs=ALGO_STUBS)
U('C03', 'C03_rows.cpp', name='C03_rows3_permuted', defines=dict(RDIM=3, PERMUTED=1, NB=2, SB=4, MEMSZ2=12, VF_ROOT_CELLS=12), entries=['rows_reverse', 'rows_swap_ranges'], unwind=11, timeout=3600, heap=512, stubs=ALGO_STUBS, slots=4, tier='thorough')   # rows of a 3-D view (2-D proxy rows), gap-free layouts with permuted dimension order
U('C03', 'C03_rows.cpp', name='C03_rows3_arbitrary', defines=dict(RDIM=3, NB=2, SB=4, MEMSZ2=16, VF_ROOT_CELLS=16), entries=['rows_reverse', 'rows_swap_ranges'], unwind=11, timeout=3600, heap=512, stubs=ALGO_STUBS, slots=4, tier='thorough')   # the same over arbitrary strides
U('C03', 'C03_rows.cpp', name='C03_rows_heavy', defines=dict(NB=2, SB=3, MEMSZ2=12, VF_ROOT_CELLS=12), entries=['rows_queries', 'rows_remove_unique'], unwind=7, timeout=3600, heap=512, stubs=ALGO_STUBS, tier='thorough', slots=4)
U('C03', 'C03_algo.cpp', name='C03_1d_heavy', defines=dict(RANGE=1, NB=3, SB=2, MEMSZ2=8, VF_ROOT_CELLS=8), entries=['rotate', 'partial_sort'], unwind=6, timeout=3600, heap=512, stubs=ALGO_STUBS, tier='thorough', slots=4)

# C19 also runs the C01 step family itself (every view-forming operation applied to views with symbolic index bases in [-2,2])
for d in (1, 2):
    U('C19', 'C01_step.cpp', name='C19_step_rebased_DIM%d' % d, defines=dict(DIM=d, NB=3, SB=4, FB=2), unwind=6, timeout=900)
