// C19 for OWNING arrays: an array built over explicit index extensions [b_k, b_k + n_k) acts as the zero-based array of the same sizes with
// every index shifted by b_k, under copy construction, copy assignment (into any zero-based prior array), ==, reextent (same bases, other
// sizes: elements at common INDICES kept) and element access.  Index bases b_k and sizes n_k are symbolic.  -DDIM=1|2
#include "own_state.hpp"

template<std::size_t... I> static multi::extensions_t<D> bexts_(L const* b, L const* n, std::index_sequence<I...>) { return multi::extensions_t<D>{multi::index_extension(b[I], b[I] + n[I])...}; }
static multi::extensions_t<D> bexts(L const* b, L const* n) { return bexts_(b, n, std::make_index_sequence<D>{}); }
static void draw_bases(L* b) {
#pragma unroll
  for(int k = 0; k < D; ++k) b[k] = vf_range(-2, 2);
}
template<class Arr2> static void code(Arr2& a, L const* n, L base) {   // element at flat position k := base + k
  L ne = prod<D>(n); auto e = a.elements();
#pragma unroll
  for(int k = 0; k < NE; ++k) if(k < ne) e[k] = T(static_cast<int>(base + k));
}
template<std::size_t... I> static auto& at_based_(Arr& a, L const* b, L const* i, std::index_sequence<I...>) { return a(b[I] + i[I]...); }
static auto& at_based(Arr& a, L const* b, L const* i) { return at_based_(a, b, i, std::make_index_sequence<D>{}); }   // element at the index tuple b + i
template<std::size_t... I> static bool has_based_extents_(Arr const& a, L const* b, L const* n, std::index_sequence<I...>) {
  auto x = a.extensions(); using std::get;
  bool ok = true;
  ((ok = ok && get<I>(x).first() == b[I] && get<I>(x).size() == n[I]), ...);
  return ok;
}
static bool has_based_extents(Arr const& a, L const* b, L const* n) { return has_based_extents_(a, b, n, std::make_index_sequence<D>{}); }
static void check_based_value(Arr& a, L const* b, L const* n, L base) {
  vf_assert(has_based_extents(a, b, n), "extensions are [b_k, b_k + n_k) in every dimension");
  vf_assert(a.num_elements() == prod<D>(n), "num_elements equals the product of the sizes");
  L i[D]; draw_tuple<D>(n, i);
  vf_assert(val(at_based(a, b, i)) == base + flat<D>(n, i), "the element at index tuple b + i is the element at i of the zero-based array");
}

VF_HARNESS(based_construct_copy_equal) {
  L b[D]; L n[D]; draw_bases(b); draw_extents<D>(n, 1, NB);
  { SLOT(0); Arr r(bexts(b, n), T(5)); code(r, n, 10);
    check_based_value(r, b, n, 10);
    SLOT(2); Arr c(r);
    check_based_value(c, b, n, 10);
    vf_assert(c == r && !(c != r), "a copy of a re-based array equals it");
    L i[D]; draw_tuple<D>(n, i); at_based(c, b, i) = T(999);
    vf_assert(c != r && val(at_based(r, b, i)) == 10 + flat<D>(n, i), "the copy has its own elements");
    SLOT(4); Arr z(exts<D>(n), T(5)); code(z, n, 10);      // the zero-based array with the same sizes and elements
    vf_assert(!(z == r) || [&] { bool all0 = true; for(int k = 0; k < D; ++k) all0 = all0 && b[k] == 0; return all0; }(), "arrays with different index bases are not equal (extensions are part of the value)"); }
  check_all_released();
  vf_reach("based_construct_copy_equal");
}
template<int KB> static void t_based_assign() {   // copy assignment of a re-based array over any prior state
  L b[D]; L n[D]; draw_bases(b); draw_extents<D>(n, 1, NB);
  { SLOT(0); Arr r(bexts(b, n), T(5)); code(r, n, 10);
    Slot p; make_state<KB>(p, 40, 2); SLOT(4);
    *p = r;
    check_based_value(*p, b, n, 10); check_based_value(r, b, n, 10);
    vf_assert(*p == r, "the assigned array equals its source");
    p.destroy(); }
  check_all_released();
}
VF_HARNESS(based_assign_k0) { t_based_assign<0>(); vf_reach("based_assign_k0"); }
VF_HARNESS(based_assign_k1) { t_based_assign<1>(); vf_reach("based_assign_k1"); }

VF_HARNESS(based_reextent) {   // reextent to other sizes over the SAME index bases: elements at common indices kept, new ones = fill / value-initialised
  L b[D]; L n[D]; L m[D]; draw_bases(b); draw_extents<D>(n, 1, NB); draw_extents<D>(m, 1, NB);
  L form = vf_range(0, 1);
  { SLOT(0); Arr r(bexts(b, n), T(5)); code(r, n, 10); SLOT(2);
    if(form == 0) { r.reextent(bexts(b, m)); } else { r.reextent(bexts(b, m), T(77)); }
    vf_assert(has_based_extents(r, b, m), "after reextent(x) the array has the extensions x");
    L i[D]; draw_tuple<D>(m, i);
    bool inside = true;
#pragma unroll
    for(int k = 0; k < D; ++k) inside = inside && i[k] < n[k];
    if(inside) { vf_assert(val(at_based(r, b, i)) == 10 + flat<D>(n, i), "an element whose index tuple lies in both the old and the new extensions keeps its value"); }
    else if(form == 1) { vf_assert(val(at_based(r, b, i)) == 77, "a new element equals the fill value"); } }
  check_all_released();
  vf_reach("based_reextent");
}
