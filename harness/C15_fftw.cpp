// C15 (call-contract level): the guru-interface plan the FFTW adaptor builds denotes the DFT over exactly the chosen dimensions
// with the remaining dimensions as batches, on exactly the user's input/output views.  fftw_plan_guru64_dft / fftw_execute_dft /
// fftw_destroy_plan are defined HERE and only record.  Input and output are ARBITRARY views of equal extents (own strides/origin).
#define VF_NO_GMEM
#include <complex>
#define ELEM std::complex<double>
#include "spec.hpp"
#include <boost/multi/adaptors/fftw.hpp>
#ifndef DIM
#define DIM 2
#endif
constexpr int D = DIM;
#ifndef MEMSZ2
#define MEMSZ2 32
#endif
using C = std::complex<double>;
extern "C" {
C g_in[MEMSZ2]; C g_out[MEMSZ2];
long r_plans, r_execs, r_destroys, r_rank, r_howmany; long r_dn[4], r_dis[4], r_dos[4], r_hn[4], r_his[4], r_hos[4];
fftw_complex* r_in; fftw_complex* r_out; fftw_complex* r_xin; fftw_complex* r_xout; long r_sign; unsigned r_flags; long r_order_ok; char r_token[8]; long r_unmodelled;
static fftw_plan record_plan(long rank, long const* dn, long const* dis, long const* dos, long hrank, long const* hn, long const* his, long const* hos, fftw_complex* in, fftw_complex* out, int sign, unsigned flags) {
  ++r_plans; r_rank = rank; r_howmany = hrank; r_in = in; r_out = out; r_sign = sign; r_flags = flags;
  if(rank > 4 || hrank > 4) r_unmodelled = 1;
#pragma unroll
  for(int k = 0; k < 4; ++k) { if(k < rank) { r_dn[k] = dn[k]; r_dis[k] = dis[k]; r_dos[k] = dos[k]; } if(k < hrank) { r_hn[k] = hn[k]; r_his[k] = his[k]; r_hos[k] = hos[k]; } }
  return reinterpret_cast<fftw_plan>(r_token);
}
// every complex-DFT planner of FFTW is reduced to the guru normal form (transformed dims and batch dims, each a triple n / input stride / output stride)
fftw_plan fftw_plan_guru64_dft(int rank, const fftw_iodim64* dims, int howmany_rank, const fftw_iodim64* howmany_dims, fftw_complex* in, fftw_complex* out, int sign, unsigned flags) {
  long dn[4] = {0, 0, 0, 0}, dis[4] = {0, 0, 0, 0}, dos[4] = {0, 0, 0, 0}, hn[4] = {0, 0, 0, 0}, his[4] = {0, 0, 0, 0}, hos[4] = {0, 0, 0, 0};
#pragma unroll
  for(int k = 0; k < 4; ++k) { if(k < rank) { dn[k] = dims[k].n; dis[k] = dims[k].is; dos[k] = dims[k].os; } if(k < howmany_rank) { hn[k] = howmany_dims[k].n; his[k] = howmany_dims[k].is; hos[k] = howmany_dims[k].os; } }
  return record_plan(rank, dn, dis, dos, howmany_rank, hn, his, hos, in, out, sign, flags);
}
fftw_plan fftw_plan_guru_dft(int rank, const fftw_iodim* dims, int howmany_rank, const fftw_iodim* howmany_dims, fftw_complex* in, fftw_complex* out, int sign, unsigned flags) {
  long dn[4] = {0, 0, 0, 0}, dis[4] = {0, 0, 0, 0}, dos[4] = {0, 0, 0, 0}, hn[4] = {0, 0, 0, 0}, his[4] = {0, 0, 0, 0}, hos[4] = {0, 0, 0, 0};
#pragma unroll
  for(int k = 0; k < 4; ++k) { if(k < rank) { dn[k] = dims[k].n; dis[k] = dims[k].is; dos[k] = dims[k].os; } if(k < howmany_rank) { hn[k] = howmany_dims[k].n; his[k] = howmany_dims[k].is; hos[k] = howmany_dims[k].os; } }
  return record_plan(rank, dn, dis, dos, howmany_rank, hn, his, hos, in, out, sign, flags);
}
// contiguous row-major planners: strides are the products of the trailing sizes
fftw_plan fftw_plan_dft(int rank, const int* n, fftw_complex* in, fftw_complex* out, int sign, unsigned flags) {
  long dn[4] = {0, 0, 0, 0}, ds[4] = {0, 0, 0, 0}, none[4] = {0, 0, 0, 0}; long st = 1;
#pragma unroll
  for(int k = 3; k >= 0; --k) if(k < rank) { dn[k] = n[k]; ds[k] = st; st *= n[k]; }
  return record_plan(rank, dn, ds, ds, 0, none, none, none, in, out, sign, flags);
}
fftw_plan fftw_plan_dft_1d(int n0, fftw_complex* in, fftw_complex* out, int sign, unsigned flags) { int n[1] = {n0}; return fftw_plan_dft(1, n, in, out, sign, flags); }
fftw_plan fftw_plan_dft_2d(int n0, int n1, fftw_complex* in, fftw_complex* out, int sign, unsigned flags) { int n[2] = {n0, n1}; return fftw_plan_dft(2, n, in, out, sign, flags); }
fftw_plan fftw_plan_dft_3d(int n0, int n1, int n2, fftw_complex* in, fftw_complex* out, int sign, unsigned flags) { int n[3] = {n0, n1, n2}; return fftw_plan_dft(3, n, in, out, sign, flags); }
fftw_plan fftw_plan_many_dft(int rank, const int* n, int howmany, fftw_complex* in, const int* inembed, int istride, int idist, fftw_complex* out, const int* onembed, int ostride, int odist, int sign, unsigned flags) {
  long dn[4] = {0, 0, 0, 0}, dis[4] = {0, 0, 0, 0}, dos[4] = {0, 0, 0, 0}, hn[4] = {howmany, 0, 0, 0}, his[4] = {idist, 0, 0, 0}, hos[4] = {odist, 0, 0, 0}; long si = istride, so = ostride;
#pragma unroll
  for(int k = 3; k >= 0; --k) if(k < rank) { dn[k] = n[k]; dis[k] = si; dos[k] = so; si *= (inembed ? inembed[k] : n[k]); so *= (onembed ? onembed[k] : n[k]); }
  return record_plan(rank, dn, dis, dos, 1, hn, his, hos, in, out, sign, flags);
}
void fftw_execute_dft(const fftw_plan p, fftw_complex* in, fftw_complex* out) { ++r_execs; r_xin = in; r_xout = out; r_order_ok = (p == reinterpret_cast<fftw_plan>(r_token)) && r_plans == 1 && r_destroys == 0; }
void fftw_destroy_plan(fftw_plan p) { if(p == reinterpret_cast<fftw_plan>(r_token)) ++r_destroys; else r_destroys += 100; }
}
namespace fftw = multi::fftw;

// does the recorded plan match the views dimension by dimension?  (fa, fb) >= 0: batch dimensions fa (outer) and fb (inner) are taken as ONE fused loop
static bool plan_matches(Spec<D> const& si, Spec<D> const& so, bool const* which, int fa, int fb) {
  bool used_d[4] = {false, false, false, false}; bool used_h[4] = {false, false, false, false}; bool ok = true;
#pragma unroll
  for(int d = 0; d < D; ++d) if(si.d[d].size > 1 && d != fa) {
    L const n = d == fb ? si.d[fa].size * si.d[fb].size : si.d[d].size;
    bool found = false;
#pragma unroll
    for(int k = 0; k < 4; ++k) {
      if(which[d]) { if(!found && k < r_rank && !used_d[k] && r_dn[k] == n && r_dis[k] == si.d[d].stride && r_dos[k] == so.d[d].stride) { used_d[k] = true; found = true; } }
      else { if(!found && k < r_howmany && !used_h[k] && r_hn[k] == n && r_his[k] == si.d[d].stride && r_hos[k] == so.d[d].stride) { used_h[k] = true; found = true; } }
    }
    ok = ok && found;
  }
#pragma unroll
  for(int k = 0; k < 4; ++k) { if(k < r_rank && !used_d[k]) ok = ok && r_dn[k] == 1; if(k < r_howmany && !used_h[k]) ok = ok && r_hn[k] == 1; }
  return ok;
}
static void check_plan(Spec<D> const& si, Spec<D> const& so, bool const* which, C const* ibase, C const* obase, long sign) {
  vf_assert(r_plans == 1 && r_execs == 1 && r_destroys == 1 && r_order_ok == 1, "one plan, executed once with that plan before it is destroyed exactly once");
  vf_assert(r_unmodelled == 0, "MODEL the plan fits the recorder (at most four transformed and four batch dimensions)");
  // the multi-dimensional DFT is separable and batches are independent: the ORDER of the entries in either list does not matter, and entries of
  // size 1 (and view dimensions of size 1) contribute nothing.  Every view dimension of size > 1 must be matched by exactly one entry of the list
  // it belongs to, with its size, input stride and output stride; no other entry of size > 1 may exist.
  // Additionally accepted: two batch dimensions a (outer), b (inner) whose strides nest in BOTH operands (stride[a] == size[b]*stride[b]) fused into
  // one batch loop (size[a]*size[b], stride[b]) - it enumerates the same (input, output) offset pairs.
  bool ok = plan_matches(si, so, which, -1, -1);
#pragma unroll
  for(int fa = 0; fa < D; ++fa) {
#pragma unroll
    for(int fb = 0; fb < D; ++fb) if(fa != fb && !which[fa] && !which[fb] && si.d[fa].size > 1 && si.d[fb].size > 1
        && si.d[fa].stride == si.d[fb].size * si.d[fb].stride && so.d[fa].stride == so.d[fb].size * so.d[fb].stride) ok = ok || plan_matches(si, so, which, fa, fb);
  }
  vf_assert(ok, "the plan transforms exactly the chosen dimensions and batches over the others, each with the view's size, input stride and output stride");
  vf_assert(reinterpret_cast<C const*>(r_in) == ibase && reinterpret_cast<C const*>(r_out) == obase, "in/out are the bases of the input and output views");
  vf_assert(r_xin == r_in && r_xout == r_out, "execute uses the planned pointers");
  vf_assert(r_sign == sign, "sign as requested");
  vf_assert((r_flags & FFTW_PRESERVE_INPUT) != 0, "the plan preserves a distinct input");
}
// the subset of transformed dimensions is a compile-time case split (one entry per mask, all 2^D masks): with a symbolic mask cbmc
// explores libstdc++'s recursive __stable_partition_adaptive although the buffer path is always taken (measured: no verdict in 6 min).
template<int MASK> static void set_which(bool* w, std::array<bool, D>& a) {
#pragma unroll
  for(int d = 0; d < D; ++d) { w[d] = ((MASK >> d) & 1) != 0; a[static_cast<std::size_t>(d)] = w[d]; }
}
template<int MASK> static void t_out_of_place() {
  Spec<D> si = arbitrary_spec<D>(1, 0, MEMSZ2); Spec<D> so = arbitrary_spec_like(si, 0, MEMSZ2);
  auto const in = view_of<D, C>(si, g_in, MEMSZ2); auto out = view_of<D, C>(so, g_out, MEMSZ2);
  bool w[D]; std::array<bool, D> which{}; set_which<MASK>(w, which);
  L dir = vf_range(0, 1);
  if(dir == 0) { fftw::dft_forward(which, in, out); } else { fftw::dft_backward(which, in, out); }
  check_plan(si, so, w, g_in + si.origin, g_out + so.origin, dir == 0 ? FFTW_FORWARD : FFTW_BACKWARD);
}
template<int MASK> static void t_in_place() {
  Spec<D> si = arbitrary_spec<D>(1, 0, MEMSZ2);
  auto io = view_of<D, C>(si, g_in, MEMSZ2);
  bool w[D]; std::array<bool, D> which{}; set_which<MASK>(w, which);
  fftw::dft(which, io, fftw::forward);
  check_plan(si, si, w, g_in + si.origin, g_in + si.origin, FFTW_FORWARD);
}
#define E(M) VF_HARNESS(dft_out_of_place_m##M) { t_out_of_place<M>(); vf_reach("dft_out_of_place_m" #M); } VF_HARNESS(dft_in_place_m##M) { t_in_place<M>(); vf_reach("dft_in_place_m" #M); }
E(0) E(1)
#if DIM >= 2
E(2) E(3)
#endif
#if DIM >= 3
E(4) E(5) E(6) E(7)
#endif
#if DIM >= 4
E(8) E(9) E(10) E(11) E(12) E(13) E(14) E(15)
#endif
