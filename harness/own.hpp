// own.hpp -- instrumentation for harnesses over OWNING arrays (C04, C06, C08, C09, C10, C17):
//   * A<T, ...>  : bump allocator over one static arena with a ledger of blocks (pointer, count, live, owning allocator instance);
//                  allocate/deallocate are ordinary harness code the library reaches through allocator_traits, so their vf_asserts
//                  are cbmc properties on every path (block released once, with the requested size, through an equal allocator).
//   * Tr         : element type with observable special members; a ghost "alive" bitmap indexed by the cell's position in the arena
//                  asserts: never constructed over a live object, never read / assigned / destroyed while not alive.
//   * fault injection: every A::allocate and every Tr copy/move construction/assignment increments g_ops; the one whose ordinal
//                  equals g_fail_at throws Exc (g_fail_at == 0: no fault).  The solver chooses g_fail_at.
#pragma once
#include "vf.h"
#include <boost/multi/array.hpp>
#include <cstddef>
#include <new>
#include <type_traits>
#include <utility>
namespace multi = boost::multi;

#ifndef SLOT_CELLS
#define SLOT_CELLS 10            // capacity of one block in 8-byte cells (>= the largest array a harness allocates)
#endif
#ifndef MAXBLK
#define MAXBLK 8                 // number of blocks a harness may obtain
#endif
#define ARENA_CELLS (SLOT_CELLS * MAXBLK)
struct Exc {};

// The k-th block handed out is the k-th fixed-size slot of one static arena (never reused).  Fixed slots keep every element
// address CONCRETE for cbmc whenever the number of allocations performed so far is path-independent (harnesses therefore separate
// the non-empty from the empty shapes): measured 3.4M -> ~0.3M SAT variables against a bump allocator with symbolic sizes.
extern "C" {
alignas(16) long g_arena_cells[ARENA_CELLS];   // typed 8-byte cells: small enough for cbmc's per-element field sensitivity
long g_alive[ARENA_CELLS];                 // ghost: a Tr object lives in this cell
long g_slot; long g_blk_used[MAXBLK]; long g_blk_n[MAXBLK]; long g_blk_live[MAXBLK]; long g_blk_owner[MAXBLK];
long g_ops; long g_fail_at;                // fault injection
long g_nalloc;                             // number of successful allocate calls
long g_ncopy; long g_nmove;                // Tr copy / move operations
}
#define g_arena (reinterpret_cast<char*>(g_arena_cells))
#define SLOT(k) (g_slot = (k))   /* next allocation takes slot k */
static inline void tick_fault() { ++g_ops; if(g_ops == g_fail_at) throw Exc{}; }
template<class T> static inline bool in_arena(T const* p) { return vf_within(p, g_arena_cells, ARENA_CELLS * 8); }
template<class T> static inline long cell_of(T const* p) { return (reinterpret_cast<char const*>(p) - g_arena) / 8; }

// ---- allocator.  Id = instance identity (for C10); the propagate traits and is_always_equal are template parameters.
template<class T, bool POCCA = false, bool POCMA = true, bool POCS = false, bool AlwaysEqual = true>
struct A {
  using value_type = T;
  using propagate_on_container_copy_assignment = std::integral_constant<bool, POCCA>;
  using propagate_on_container_move_assignment = std::integral_constant<bool, POCMA>;
  using propagate_on_container_swap = std::integral_constant<bool, POCS>;
  using is_always_equal = std::integral_constant<bool, AlwaysEqual>;
  long id = 0;
  A() = default;
  explicit A(long i) : id(i) {}
  template<class U> A(A<U, POCCA, POCMA, POCS, AlwaysEqual> const& o) : id(o.id) {}   // NOLINT
  template<class U> struct rebind { using other = A<U, POCCA, POCMA, POCS, AlwaysEqual>; };
  static_assert(sizeof(T) <= 8, "one element per cell");
  T* allocate(std::size_t n) {
    tick_fault();
    vf_assert(n > 0, "allocate is never called for zero elements");
    // the slot is the harness-provided hint g_slot (set to a constant before each statement, see SLOT()), so that block addresses
    // stay concrete for cbmc even after a conditional allocation inside the library made the number of allocations path-dependent
    vf_assert(g_slot < MAXBLK && static_cast<long>(n) <= SLOT_CELLS, "HARNESS block capacity");
    vf_assume(g_slot < MAXBLK && static_cast<long>(n) <= SLOT_CELLS);
    long const k = g_slot;
    vf_assert(g_blk_used[k] == 0, "HARNESS slot is fresh");
    vf_assume(g_blk_used[k] == 0);
    g_blk_used[k] = 1; g_blk_n[k] = static_cast<long>(n); g_blk_live[k] = 1; g_blk_owner[k] = id;
    g_slot = k + 1; ++g_nalloc;
    return reinterpret_cast<T*>(g_arena + k * (SLOT_CELLS * 8));
  }
  void deallocate(T* p, std::size_t n) {
    bool found = false;
#pragma unroll
    for(int k = 0; k < MAXBLK; ++k) {
      if(g_blk_used[k] != 0 && g_arena + k * (SLOT_CELLS * 8) == reinterpret_cast<char*>(p) && g_blk_live[k] != 0) {
        found = true;
        vf_assert(g_blk_n[k] == static_cast<long>(n), "block is given back with the size it was requested with");
        vf_assert(AlwaysEqual || g_blk_owner[k] == id, "block is released through an allocator equal to the one that produced it");
        g_blk_live[k] = 0;
      }
    }
    vf_assert(found, "deallocate of a live block obtained from the allocator (no double free, no foreign pointer)");
  }
  friend bool operator==(A const& a, A const& b) { return AlwaysEqual || a.id == b.id; }
  friend bool operator!=(A const& a, A const& b) { return !(a == b); }
  A select_on_container_copy_construction() const { A r(*this); if(!AlwaysEqual) r.id = id + 100; return r; }   // observable: copies get id+100
};

static inline long live_blocks() {
  long n = 0;
#pragma unroll
  for(int k = 0; k < MAXBLK; ++k) if(g_blk_used[k] != 0 && g_blk_live[k] != 0) ++n;
  return n;
}
static inline long alive_cells() {
  long n = 0;
#pragma unroll
  for(int c = 0; c < ARENA_CELLS; ++c) n += g_alive[c];
  return n;
}

// ---- tracked element
struct alignas(8) Tr {   // one element per 8-byte ghost cell
  int v;
  void born() { if(in_arena(this)) { long c = cell_of(this); vf_assert(g_alive[c] == 0, "element is never constructed over a live object"); g_alive[c] = 1; } }
  void dies() { if(in_arena(this)) { long c = cell_of(this); vf_assert(g_alive[c] == 1, "element is never destroyed while not alive (no double destroy)"); g_alive[c] = 0; } }
  void used() const { if(in_arena(this)) { vf_assert(g_alive[cell_of(this)] == 1, "element is never read or assigned while not alive"); } }
  Tr() : v(0) { born(); }
  Tr(int x) : v(x) { born(); }   // NOLINT
  Tr(Tr const& o) : v(o.v) { o.used(); ++g_ncopy; tick_fault(); born(); }
  Tr(Tr&& o) : v(o.v) { o.used(); ++g_nmove; tick_fault(); o.v = -7; born(); }
  Tr& operator=(Tr const& o) { used(); o.used(); ++g_ncopy; tick_fault(); v = o.v; return *this; }
  Tr& operator=(Tr&& o) { used(); o.used(); ++g_nmove; tick_fault(); v = o.v; o.v = -7; return *this; }
  ~Tr() { dies(); }
  friend bool operator==(Tr const& a, Tr const& b) { a.used(); b.used(); return a.v == b.v; }
  friend bool operator!=(Tr const& a, Tr const& b) { return !(a == b); }
};
static inline int val(int x) { return x; }
static inline int val(long x) { return static_cast<int>(x); }
static inline int val(Tr const& x) { x.used(); return x.v; }

// end-of-harness obligation: nothing outstanding
static inline void check_all_released() {
  vf_assert(live_blocks() == 0, "every block obtained from the allocator has been given back when the last array died");
  vf_assert(alive_cells() == 0, "every constructed element has been destroyed when the last array died");
}

// extents helper: multi::extensions_t<D> from L[D]
template<int D, std::size_t... I> static inline multi::extensions_t<D> exts_(L const* n, std::index_sequence<I...>) { return multi::extensions_t<D>{multi::index_extension(n[I])...}; }
template<int D> static inline multi::extensions_t<D> exts(L const* n) { return exts_<D>(n, std::make_index_sequence<D>{}); }
template<int D> static inline void draw_extents(L* n, L lo, L hi) {
#pragma unroll
  for(int k = 0; k < D; ++k) n[k] = vf_range(lo, hi);
}
template<int D> static inline L prod(L const* n) {
  L p = 1;
#pragma unroll
  for(int k = 0; k < D; ++k) p *= n[k];
  return p;
}
template<int D, class Arr> static inline bool has_extents(Arr const& a, L const* n) {
  L sz[D];
  { auto t = a.sizes(); using boost::multi::detail::get; std::apply([&](auto... s) { L tmp[] = {static_cast<L>(s)...};
#pragma unroll
      for(int k = 0; k < D; ++k) sz[k] = tmp[k]; }, t); }
  bool ok = true; bool empty = false;
#pragma unroll
  for(int k = 0; k < D; ++k) { ok = ok && sz[k] == n[k]; empty = empty || n[k] == 0; }
  // the library collapses empty shapes (num_elements == 0) to size 0 in the leading dimension; for those only emptiness is compared
  if(empty) return a.num_elements() == 0 && a.is_empty();
  return ok;
}
// flat position of a zero-based tuple in row-major order
template<int D> static inline L flat(L const* n, L const* i) {
  L k = 0;
#pragma unroll
  for(int d = 0; d < D; ++d) k = k * n[d] + i[d];
  return k;
}
template<int D> static inline void draw_tuple(L const* n, L* i) {
#pragma unroll
  for(int d = 0; d < D; ++d) { i[d] = vf_nondet_long(); vf_assume(0 <= i[d] && i[d] < n[d]); }
}
template<class Arr, std::size_t... I> static inline auto& at_(Arr& a, L const* i, std::index_sequence<I...>) { return a(i[I]...); }
template<int D, class Arr> static inline auto& at(Arr& a, L const* i) { return at_(a, i, std::make_index_sequence<D>{}); }
